"""C03 Immutable availability with k good shares -- bounded exploration of immutable/downloader/fetcher.py SegmentFetcher
(shared with C46) and the decode call site (C36)"""
from contracts import C46, C36

LEVEL = "other"
MANIFEST_ENTRY = {
    "text": "BOUNDED stand-in for the segment-fetching core, not a proof. The real SegmentFetcher is run natively with fake shares under EVERY schedule of 'share found', 'request answered (good / corrupt / dead)', 'request overdue' and 'no more shares' for every configuration of up to 3 shares over share numbers {0,1,2} on two servers and k in 1..3 (exhaustive DFS; seeded random schedules for 4 shares; about 1.5 million complete schedules in the quick tier). Contract at the end of every schedule: if at least k distinct share numbers had a good share, the fetcher handed exactly k-or-more validated blocks of distinct share numbers to process_blocks -- whatever happened to the other shares (corrupt, dead, overdue, late) -- and otherwise it reported NoSharesError / NotEnoughSharesError and never delivered data; exactly one report per fetch. Small-state run-time contracts of the two neighbours (all states below a bound): ShareFinder.loop declares 'no more shares' only when no request, overdue or not, is still in flight, and Share._got_data marks exactly the undelivered tail of a short answer as unavailable (so intact shares are not abandoned). The decoding of those k blocks into the segment is the C36 contract (re-run here); the integrity of each block is C02.",
    "note": "Availability of the whole read additionally depends on ShareFinder (which servers are asked, when it declares 'no more shares') and on each Share's own state machine and timers, which are reactor-driven and not explored; with those the property quantifies over unbounded event orders and is outside function contracts. Nothing here is counted as proved.",
    "technique": "bounded exhaustive exploration of event schedules of the real class against a run-time contract (stand-in for deductive verification, labelled bounded); decode site by contract (C36)",
}
MANIFEST_ENTRY["text"] += " Bounded end-to-end stand-in (run-time contract, never counted as proved): contracts/immutable_grid.py encodes seeded files with the real Encoder, serves the shares from in-memory servers with per-share faults (missing, bit-flipped, truncated, header-truncated, another file's, another encoding's, dead or dying server, slow server) and checks every ImmutableFileNode.read (whole, ranged, concurrent, paused, next to a cancelled one, after failed reads) against the plaintext."
MANIFEST_ENTRY["technique"] += "; plus bounded end-to-end run-time scenario contracts on an in-process grid of the real components (stand-in, labelled bounded)"
EXPLANATION = "Every schedule of a small fetch session ends with the right report."
TRUSTED = C46.TRUSTED
ASSUMPTIONS = C46.ASSUMPTIONS
NOT_DECIDED = "ShareFinder, Share state machine, more than 4 shares / 2 servers."


def extra_checks(rep, tier):
    C46.fetcher_check(rep, tier, "C03")
    C46.small_state_checks(rep, "C03")
    from contracts import immutable_grid
    immutable_grid.grid_check(rep, tier, "C03")


def contracts(tier):
    return [c for c in C36.contracts(tier) if type(c).__name__ in ("ImmutableDecodeBlocks", "CRSDecode")] + [C46.GotShares(), C46.DesireOffsets()]
