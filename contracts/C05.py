"""C05 Convergent capabilities and literal files -- contracts on util/hashutil.py (_convergence_hasher_tag),
immutable/upload.py (FileHandle key derivation, Uploader.upload literal threshold, LiteralUploader,
EncryptAnUploadable._hash_and_encrypt_plaintext)"""
import z3
from pyvc.harness import Spec, IntK, BoolK, StrK, BlobK, ChoiceK, Outcome
from pyvc.values import *  # noqa
from contracts.lib import *  # noqa

LEVEL = "other"
MANIFEST_ENTRY = {
    "text": "Convergence tag: for every k, n, segment size and secret, _convergence_hasher_tag returns TAG + netstring(secret) + netstring('k,n,segsize') (a prefix-free, hence injective, encoding: C38 NetstringRT) and refuses k > n, k or n < 1, k or n > 256. Key derivation (FileHandle._get_encryption_key_convergent): the hasher is created with exactly (k, n, segsize, convergence secret) of the encoding parameters -- not happy -- and is fed every chunk the file yields, in order, for each of the chunkings explored (1, 2 or 3 reads; chunk contents symbolic), and the key is its digest; hashlib's update() being concatenation, the key is a function of the plaintext, the secret, k, n and the segment size only, independent of read chunking. Without a secret get_encryption_key takes 16 bytes from os.urandom (once, then cached). Literal threshold (Uploader.upload): for every size, a file of at most 55 bytes goes to LiteralUploader and never to a CHK upload, larger files never to LiteralUploader; LiteralUploader's cap embeds exactly the bytes read. Encryption under any read chunking: _hash_and_encrypt_plaintext passes every chunk, in order, through the one AES-CTR encryptor even when hash_only is set (so the counter position never depends on how the ciphertext was consumed) and returns the ciphertexts in order.",
    "note": "hashlib (update == concatenation), AES-CTR and os.urandom are trusted library behaviour. That 'changing the secret, k, N or segment size changes the storage index' additionally needs collision resistance of SHA-256d (assumed). The Deferred chains are run by the chain interpreter. Chunkings bounded (1..3 reads).",
    "technique": "contract-based deductive verification (pyvc VCs + z3, rope strings, Deferred-chain model); chunkings enumerated",
}
EXPLANATION = "Data-flow contracts: what goes into the convergence hash and through the encryptor."
TRUSTED = ["hashlib: h.update(a); h.update(b) == h.update(a+b)", "AES-CTR keystream position advances by the bytes encrypted", "os.urandom", "SHA-256d collision resistance"]
ASSUMPTIONS = []
NOT_DECIDED = "Encoder/CHKUploader (the rest of the cap: UEB hash) -- C01/C06; helper-assisted uploads."
UP = "allmydata/immutable/upload.py"
LOG = {"log.msg": lambda I, a, kw: 1, "PrefixingLogMixin.log": lambda I, a, kw: 1, "EncryptAnUploadable.log": lambda I, a, kw: 1}


class ConvergenceTag(Spec):
    file = "allmydata/util/hashutil.py"
    qualname = "_convergence_hasher_tag"
    cross_check = 40
    raises = (ValueError,)

    def inputs(self):
        return {"k": IntK(rnd=lambda r: r.choice([0, 1, 3, 256, 257])), "n": IntK(rnd=lambda r: r.choice([0, 1, 10, 256, 257])), "segsize": IntK(0, rnd=lambda r: r.choice([0, 1, 131072])),
                "conv": StrK(True, rndmax=20)}

    def config(self):
        return {"rope": True, "atoms": {"conv": (None, 0)}}

    def run(self, I, a):
        for nm in ("k", "n", "segsize"):
            pass
        return I.call_value(self.target(I), [a["k"], a["n"], a["segsize"], a["conv"]], {})

    def native(self, a):
        from allmydata.util.hashutil import _convergence_hasher_tag
        return native_outcome(lambda: _convergence_hasher_tag(a["k"], a["n"], a["segsize"], a["conv"]))

    def ensures(self, I, a, out):
        k, n = Z(a["k"]), Z(a["n"])
        bad = z3.Or(k > n, k < 1, n < 1, k > 256, n > 256)
        if out.kind == "raise":
            return [("refused-only-for-impossible-share-counts", bad)]
        from allmydata.util.hashutil import CONVERGENT_ENCRYPTION_TAG
        if I is None:
            c = a["conv"]
            inner = b"%d,%d,%d" % (a["k"], a["n"], a["segsize"])
            want = CONVERGENT_ENCRYPTION_TAG + b"%d:%s," % (len(c), c) + b"%d:%s," % (len(inner), inner)
            return [("impossible-share-counts-are-refused", z3.Not(bad)), ("tag-is-the-netstring-encoding-of-secret-and-parameters", z3.BoolVal(out.value == want))]
        from pyvc.models_str import NUMLEN
        conv = as_sstr(a["conv"]).term
        inner_len = NUMLEN(k) + 1 + NUMLEN(n) + 1 + NUMLEN(Z(a["segsize"]))
        want = z3.Concat(z3.StringVal(CONVERGENT_ENCRYPTION_TAG.decode("latin-1")), z3.IntToStr(z3.Length(conv)), z3.StringVal(":"), conv, z3.StringVal(","),
                         z3.IntToStr(inner_len), z3.StringVal(":"), z3.IntToStr(k), z3.StringVal(","), z3.IntToStr(n), z3.StringVal(","), z3.IntToStr(Z(a["segsize"])), z3.StringVal(","))
        return [("impossible-share-counts-are-refused", z3.Not(bad)),
                ("tag-is-the-netstring-encoding-of-secret-and-parameters", z3.simplify(as_sstr(out.value).term) == z3.simplify(want))]

    def canary(self, I, a, out):
        if out.kind != "return":
            return []
        return [("canary", Z(a["k"]) < 5)]


class ConvergentKey(Spec):
    file = UP
    qualname = "FileHandle._get_encryption_key_convergent"
    level = "B"
    bound = "the file is read in 1, 2 or 3 chunks (chunk contents symbolic) before end-of-file"
    cross_check = 0
    raises = ()
    canary_case = {"nchunks": 2}

    def inputs(self):
        return {"nchunks": ChoiceK([1, 2, 3]), "k": IntK(1, 256), "happy": IntK(1, 256), "n": IntK(1, 256), "segsize": IntK(1), "has_status": BoolK(),
                "c0": BlobK(), "c1": BlobK(), "c2": BlobK(), "conv": BlobK()}

    def all_cases(self):
        return [{"nchunks": i} for i in (1, 2, 3)]

    def requires(self, I, a):
        return z3.And([as_sstr(a["c%d" % i]).known_len >= 1 for i in range(3)])

    def config(self):
        me = self

        def hasher(I, a, kw):
            me._hashers.append(tuple(a))
            return stub("hasher", update=lambda I_, a_, k_: me._updates.append(a_[0]), digest=lambda I_, a_, k_: me._digest)
        o = dict(LOG)
        o.update({"hashutil.convergence_hasher": hasher, "upload.convergence_hasher": hasher, "builtins.float": lambda I, a, kw: Opaque("float")})
        return {"overrides": o}

    def run(self, I, a):
        from pyvc.models_tahoe import DStub
        self._hashers, self._updates = [], []
        self._digest = SStr(z3.String("digest"), True, 16)
        chunks = [a["c%d" % i] for i in range(a["nchunks"])] + [b""]
        pos = [0]

        def read(I_, a_, k_):
            c = chunks[min(pos[0], len(chunks) - 1)]
            pos[0] += 1
            return c
        fh = stub("filehandle", read=read, seek=noop)
        d0 = DStub("pending")
        status = stub("status", set_progress=noop) if I.path.branch(to_z3_bool(a["has_status"])) else None
        fhobj = SObj(self.module().FileHandle, {"_filehandle": fh, "_key": None, "convergence": a["conv"], "_size": 100, "_status": status})
        fhobj.fields["get_size"] = stub("x", f=lambda I_, a_, k_: d0).fields["f"]
        fhobj.fields["get_all_encoding_parameters"] = stub("x", f=lambda I_, a_, k_: DStub("succeeded", (a["k"], a["happy"], a["n"], a["segsize"]))).fields["f"]
        d = I.call_value(self.target(I), [fhobj], {})
        res, _ = fire_chain(I, d0, 100)
        out = Outcome("return", res)
        out.post = {"obj": fhobj, "d": d, "d0": d0}
        return out

    def config_float(self):
        pass

    def ensures(self, I, a, out):
        g = [("one-hasher", z3.BoolVal(len(self._hashers) == 1))]
        if len(self._hashers) == 1:
            hk, hn, hs, hc = self._hashers[0]
            g += [("hasher-gets-needed-shares", Z(hk) == Z(a["k"])), ("hasher-gets-total-shares", Z(hn) == Z(a["n"])), ("hasher-gets-segment-size", Z(hs) == Z(a["segsize"])),
                  ("hasher-gets-the-convergence-secret", z3.BoolVal(hc is a["conv"]))]
        want = [a["c%d" % i] for i in range(a["nchunks"])]
        g += [("every-chunk-of-the-file-is-hashed-in-order", z3.BoolVal(len(self._updates) == len(want) and all(x is y for x, y in zip(self._updates, want)))),
              ("the-key-is-the-digest", z3.BoolVal(out.value is self._digest and out.post["obj"].fields["_key"] is self._digest))]
        return g

    def canary(self, I, a, out):
        return [("canary", z3.BoolVal(len(self._updates) == 1))]


class RandomKey(Spec):
    file = UP
    qualname = "FileHandle.get_encryption_key"
    cross_check = 0
    raises = ()

    def inputs(self):
        return {"cached": ChoiceK([False, True])}

    def all_cases(self):
        return [{"cached": False}, {"cached": True}]

    def config(self):
        me = self

        def urandom(I, a, kw):
            me._rand.append(a[0])
            return b"R" * a[0]
        return {"overrides": {"posix.urandom": urandom, "os.urandom": urandom}}

    def run(self, I, a):
        self._rand = []
        o = SObj(self.module().FileHandle, {"_key": (b"K" * 16 if a["cached"] else None), "convergence": None})
        return I.call_value(self.target(I), [o], {})

    def ensures(self, I, a, out):
        from pyvc.models_tahoe import DStub
        v = out.value
        ok = isinstance(v, DStub) and v.state == "succeeded"
        return [("a-key-is-delivered", z3.BoolVal(ok)),
                ("without-a-secret-the-key-is-16-fresh-random-bytes-once", z3.BoolVal(ok and ((self._rand == [] and v.value == b"K" * 16) if a["cached"] else (self._rand == [16] and v.value == b"R" * 16))))]

    def canary(self, I, a, out):
        return [("canary", z3.BoolVal(self._rand == []))] if not a["cached"] else []
    canary_case = {"cached": False}


class LiteralThreshold(Spec):
    file = UP
    qualname = "Uploader.upload"
    cross_check = 0
    raises = ()

    def inputs(self):
        return {"size": IntK(0)}

    def config(self):
        me = self
        from pyvc.models_tahoe import DStub

        def lit(I, a, kw):
            return stub("LiteralUploader", start=lambda I_, a_, k_: (me._route.append("literal"), DStub("succeeded", "lit-results"))[1])

        def chk(I, a, kw):
            return stub("CHKUploader", start=lambda I_, a_, k_: (me._route.append("chk"), DStub("pending"))[1], get_upload_status=lambda I_, a_, k_: "st")

        def eu(I, a, kw):
            me._route.append("encrypt")
            return stub("EncryptAnUploadable")
        o = dict(LOG)
        o.update({"upload.LiteralUploader": lit, "upload.CHKUploader": chk, "upload.EncryptAnUploadable": eu, "upload.AssistedUploader": chk,
                  "interfaces.IUploadable": lambda I, a, kw: a[0], "upload.IUploadable": lambda I, a, kw: a[0]})
        return {"overrides": o}

    def run(self, I, a):
        from pyvc.models_tahoe import DStub
        self._route = []
        d0 = DStub("pending")
        up = stub("uploadable", get_size=lambda I_, a_, k_: d0, set_default_encoding_parameters=noop, close=noop, get_encryption_key=lambda I_, a_, k_: DStub("pending"))
        parent = stub("client", get_encoding_parameters=lambda I_, a_, k_: {"max_segment_size": 131072, "k": 3, "happy": 7, "n": 10},
                      get_storage_broker=lambda I_, a_, k_: "sb", _secret_holder="sh")
        u = SObj(self.module().Uploader, {"parent": parent, "running": True, "stats_provider": None, "_helper": None, "_parentmsgid": 1, "_all_uploads": {}, "_history": None})
        d = I.call_value(self.target(I), [u, up], {})
        fire_chain(I, d0, a["size"])
        return None

    def ensures(self, I, a, out):
        small = Z(a["size"]) <= 55
        lit = "literal" in self._route
        return [("files-of-at-most-55-bytes-become-literal-caps-and-need-no-servers", small if lit else z3.Not(small)),
                ("exactly-one-route", z3.BoolVal((self._route == ["literal"]) if lit else (self._route == ["encrypt", "chk"])))]

    def canary(self, I, a, out):
        return [("canary", z3.BoolVal("literal" not in self._route))]

    def interface_call(self):
        pass


class LiteralCap(Spec):
    file = UP
    qualname = "LiteralUploader.start"
    cross_check = 0
    raises = ()

    def inputs(self):
        return {"data": StrK(True, maxlen=55)}

    def config(self):
        o = dict(LOG)
        o.update({"interfaces.IUploadable": lambda I, a, kw: a[0], "upload.IUploadable": lambda I, a, kw: a[0],
                  "upload.UploadResults": lambda I, a, kw: stub("results", set_uri=lambda I_, a_, k_: self._uris.append(a_[0])),
                  "uri.LiteralFileURI": lambda I, a, kw: stub("lituri", to_string=lambda I_, a_, k_: ("URI:LIT", a[0])),
                  "upload.read_this_many_bytes": lambda I, a, kw: __import__("pyvc.models_tahoe", fromlist=["DStub"]).DStub("succeeded", [self._a["data"]])})
        return {"overrides": o}

    def run(self, I, a):
        from pyvc.models_tahoe import DStub
        self._a, self._uris = a, []
        d0 = DStub("pending")
        up = stub("uploadable", get_size=lambda I_, a_, k_: d0)
        st = stub("status", set_size=noop, set_status=noop, set_progress=noop, set_results=noop)
        lu = SObj(self.module().LiteralUploader, {"_status": st})
        d = I.call_value(self.target(I), [lu, up], {})
        fire_chain(I, d0, 10)
        return None

    def ensures(self, I, a, out):
        ok = len(self._uris) == 1 and isinstance(self._uris[0], tuple)
        return [("the-literal-cap-embeds-exactly-the-data", (as_sstr(self._uris[0][1]).term == as_sstr(a["data"]).term) if ok else z3.BoolVal(False))]

    def canary(self, I, a, out):
        return [("canary", z3.BoolVal(not self._uris))]


class HashAndEncrypt(Spec):
    file = UP
    qualname = "EncryptAnUploadable._hash_and_encrypt_plaintext"
    level = "B"
    bound = "1..3 chunks per call (contents symbolic), hash_only either way"
    cross_check = 0
    raises = ()
    canary_case = {"nchunks": 2, "hash_only": True}

    def inputs(self):
        return {"nchunks": ChoiceK([1, 2, 3]), "hash_only": ChoiceK([False, True]), "c0": BlobK(), "c1": BlobK(), "c2": BlobK()}

    def all_cases(self):
        return [{"nchunks": n, "hash_only": h} for n in (1, 2, 3) for h in (False, True)]

    def config(self):
        me = self
        o = dict(LOG)
        o["aes.encrypt_data"] = lambda I, a, kw: (me._enc.append((a[0], a[1])), ("ct", a[1]))[1]
        o["EncryptAnUploadable._update_segment_hash"] = lambda I, a, kw: me._seg.append(a[1])
        return {"overrides": o}

    def run(self, I, a):
        self._enc, self._seg, self._ph = [], [], []
        ph = stub("plaintext_hasher", update=lambda I_, a_, k_: self._ph.append(a_[0]))
        e = SObj(self.module().EncryptAnUploadable, {"_plaintext_hasher": ph, "_encryptor": "the-encryptor", "_ciphertext_bytes_read": 0, "_status": None, "_file_size": 1000})
        self._chunks = [a["c%d" % i] for i in range(a["nchunks"])]
        return I.call_value(self.target(I), [e, list(self._chunks), a["hash_only"]], {})

    def ensures(self, I, a, out):
        ch = self._chunks
        same = lambda xs: len(xs) == len(ch) and all(x is y for x, y in zip(xs, ch))     # noqa
        return [("every-chunk-goes-through-the-one-encryptor-in-order-even-when-only-hashing", z3.BoolVal(same([d for (e, d) in self._enc]) and all(e == "the-encryptor" for (e, d) in self._enc))),
                ("every-chunk-is-hashed", z3.BoolVal(same(self._ph) and same(self._seg))),
                ("ciphertexts-are-returned-in-order-unless-only-hashing", z3.BoolVal(list(out.value) == ([] if a["hash_only"] else [("ct", c) for c in ch])))]

    def canary(self, I, a, out):
        return [("canary", z3.BoolVal(not self._enc))]


def contracts(tier):
    return [ConvergenceTag(), ConvergentKey(), RandomKey(), LiteralThreshold(), LiteralCap(), HashAndEncrypt()]
