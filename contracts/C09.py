"""C09 Mutable files read back what one writer wrote -- contracts on mutable/filenode.py MutableFileVersion._modify_once,
mutable/publish.py (Publish.setup_encoding_parameters, TransformingUploadable.read), mutable/retrieve.py Retrieve._set_segment"""
import z3
from pyvc.harness import Spec, IntK, BoolK, BytesArrK, StrK, BlobK, ChoiceK, Outcome
from pyvc.values import *  # noqa
from contracts.lib import *  # noqa

LEVEL = "other"
MANIFEST_ENTRY = {
    "text": "Modify (MutableFileVersion._modify_once): for every old contents and every modifier result, what is uploaded is exactly the modifier's result whenever that is bytes different from the old contents -- INCLUDING the empty string -- and nothing is uploaded on the first try when the modifier returns None or the old contents. Segment arithmetic of a publish (Publish.setup_encoding_parameters, MDMF, k=3): for every file length, update offset and amount of new data, num_segments = ceil(length/segsize), the starting segment contains the update offset, and for a partial update the end segment is the one containing the last updated byte (so every segment touched is re-encoded and none beyond). Segment trimming on read (Retrieve._set_segment, segment size 7, all integers and segment bytes symbolic, the file a ghost array): the bytes written to the consumer from segment c are exactly file[max(offset, 7c) : min(offset+length, 7(c+1))], for first, middle, last and first==last segments, so the concatenation over the segments is file[offset:offset+length]; the decoded segment handed to it (Retrieve._decode_blocks, contract shared with C36) is cut to the tail size only for the file's last segment, whichever segment the read ends in. In-place update: MutableFileVersion._do_update_update asks for the segment containing the first updated byte and the segment containing the last updated byte (segment size 9, all integers symbolic), and ServermapUpdater stores exactly that pair as the boundary segments whose old blocks are fetched. Length of the file under update (Publish.update): it is the length recorded in the surveyed version's verinfo, or the end of the new data if larger, for every cached node size (found wrong on the pinned tree: D24, fixed). Boundary merge of an in-place update (TransformingUploadable.read): bounded run-time contract -- for every segment size 1..5, update offset 0..12, new data of 0..10 bytes and file length up to 20, the uploadable read segment by segment yields the old bytes before the offset, the new bytes, and the old bytes after them, and nothing else changes.",
    "note": "End to end the pipeline is only exercised by the bounded scenario run (real NodeMaker, MutableFileNode/Version, ServermapUpdater, Publish, Retrieve and layout proxies on ten in-memory servers with test-and-set semantics; seeded random sequences of create/overwrite/modify/update/read on MDMF and SDMF files of 1 byte to 3 segments, each mirrored on a byte-string model) -- labelled bounded; the deductive claim covers the places where byte ranges and lengths are computed or chosen. MutableFileVersion._update's choice between the in-place and whole-file path and _decode_and_decrypt_segments are not under contract.",
    "technique": "contract-based deductive verification (pyvc VCs + z3, ghost file array, Deferred-chain model); TransformingUploadable by bounded exhaustive run-time contract",
}
EXPLANATION = "Range arithmetic and the modify decision of the real mutable-file code."
TRUSTED = ["MutableData/BytesIO read semantics"]
ASSUMPTIONS = []
NOT_DECIDED = "end-to-end sequences of operations; SDMF whole-file republish path; _decode_and_decrypt_segments."
FN = "allmydata/mutable/filenode.py"
PB = "allmydata/mutable/publish.py"
RT = "allmydata/mutable/retrieve.py"
LOG = {"log.msg": lambda I, a, kw: 1, "Publish.log": lambda I, a, kw: 1, "Retrieve.log": lambda I, a, kw: 1, "MutableFileVersion.log": lambda I, a, kw: 1}


class ModifyOnce(Spec):
    file = FN
    qualname = "MutableFileVersion._modify_once"
    cross_check = 0
    raises = ()
    canary_case = {"result": "new", "first": True}

    def inputs(self):
        return {"result": ChoiceK(["none", "same", "new", "empty"]), "first": ChoiceK([False, True]), "old": StrK(True), "new": StrK(True)}

    def all_cases(self):
        return [{"result": r, "first": f} for r in ("none", "same", "new", "empty") for f in (False, True)]

    def requires(self, I, a):
        o, n = as_sstr(a["old"]).term, as_sstr(a["new"]).term
        return z3.And(o != n, z3.Length(o) >= 1)

    def config(self):
        me = self
        o = dict(LOG)
        o["publish.MutableData"] = lambda I, a, kw: ("MutableData", a[0])
        o["filenode.MutableData"] = o["publish.MutableData"]
        return {"overrides": o}

    def run(self, I, a):
        from pyvc.models_tahoe import DStub
        from allmydata.mutable.common import MODE_WRITE
        self._uploads = []
        d0 = DStub("pending")
        res = {"none": None, "same": a["old"], "new": a["new"], "empty": b""}[a["result"]]
        self._res = res
        sm = stub("servermap", get_last_update=lambda I_, a_, k_: (MODE_WRITE, 0))
        v = SObj(self.module().MutableFileVersion, {"_servermap": sm})
        v.fields["_try_to_download_data"] = stub("x", f=lambda I_, a_, k_: d0).fields["f"]
        v.fields["_upload"] = stub("x", f=lambda I_, a_, k_: (self._uploads.append(a_[0]), "upload-deferred")[1]).fields["f"]
        from pyvc.interp import ModelFn
        modifier = ModelFn("modifier", lambda I_, a_, k_: res)
        I.call_value(self.target(I), [v, modifier, a["first"]], {})
        fire_chain(I, d0, a["old"])
        return None

    def ensures(self, I, a, out):
        up = self._uploads
        changed = a["result"] in ("new", "empty")
        if changed:
            ok = len(up) == 1 and isinstance(up[0], tuple)
            want = as_sstr(self._res).term if not isinstance(self._res, bytes) else z3.StringVal(self._res.decode("latin-1"))
            return [("a-changed-result-is-uploaded-even-when-it-is-empty", z3.BoolVal(ok)),
                    ("what-is-uploaded-is-exactly-the-modifiers-result", (as_sstr(up[0][1]).term == want) if ok else z3.BoolVal(False))]
        if a["first"]:
            return [("no-change-means-no-upload-on-the-first-try", z3.BoolVal(not up))]
        return [("a-retry-republishes-the-old-contents-unchanged", (as_sstr(up[0][1]).term == as_sstr(a["old"]).term) if len(up) == 1 else z3.BoolVal(False))]

    def canary(self, I, a, out):
        return [("canary", z3.BoolVal(not self._uploads))]


SEG = 131073        # next_multiple(128 KiB, k=3)


class PublishSegments(Spec):
    file = PB
    qualname = "Publish.setup_encoding_parameters"
    cross_check = 0
    raises = ()
    canary_case = {"partial": True}

    def inputs(self):
        return {"partial": ChoiceK([False, True]), "datalength": IntK(1), "offset": IntK(0), "newsize": IntK(1)}

    def all_cases(self):
        return [{"partial": False}, {"partial": True}]

    def requires(self, I, a):
        dl, off, ns = Z(a["datalength"]), Z(a["offset"]), Z(a["newsize"])
        if a["partial"]:
            # the uploadable of an update covers [start of the first touched segment, end of the new data): get_size() = offset + len(new data)
            return z3.And(off + ns <= dl, off + ns != dl)
        return z3.And(off == 0, ns == dl)

    def config(self):
        o = dict(LOG)
        o["codec.CRSEncoder"] = lambda I, a, kw: stub("fec", set_params=noop, get_block_size=lambda I_, a_, k_: 1)
        o["publish.codec.CRSEncoder"] = o["codec.CRSEncoder"]
        return {"overrides": o}

    def run(self, I, a):
        M = self.module()
        data = stub("data", get_size=lambda I_, a_, k_: norm_int(Z(a["offset"]) + Z(a["newsize"])) if a["partial"] else a["datalength"])
        p = SObj(M.Publish, {"_version": M.MDMF_VERSION, "datalength": a["datalength"], "required_shares": 3, "total_shares": 10, "data": data})
        I.call_value(self.target(I), [p, a["offset"]], {})
        return p

    def ensures(self, I, a, out):
        p = out.value
        dl, off, ns = Z(a["datalength"]), Z(a["offset"]), Z(a["newsize"])
        nseg, sseg, eseg, tail = Z(p.fields["num_segments"]), Z(p.fields["starting_segment"]), Z(p.fields["end_segment"]), Z(p.fields["tail_segment_size"])
        g = [("segment-size-is-128KiB-rounded-up-to-a-multiple-of-k", Z(p.fields["segment_size"]) == SEG),
             ("segments-cover-the-file-with-no-empty-segment", z3.And((nseg - 1) * SEG < dl, dl <= nseg * SEG)),
             ("the-starting-segment-contains-the-update-offset", z3.And(sseg * SEG <= off, off < (sseg + 1) * SEG)),
             ("the-tail-segment-holds-the-remainder", z3.And(tail >= 1, tail <= SEG, (nseg - 1) * SEG + tail == dl))]
        if a["partial"]:
            last = off + ns - 1
            g.append(("the-end-segment-contains-the-last-updated-byte", z3.And(eseg * SEG <= last, last < (eseg + 1) * SEG)))
        else:
            g.append(("a-whole-file-publish-ends-at-the-last-segment", eseg == nseg - 1))
        return g

    def canary(self, I, a, out):
        return [("canary", Z(out.value.fields["end_segment"]) == Z(out.value.fields["num_segments"]) - 1)]


S7 = 7


class SetSegment(Spec):
    file = RT
    qualname = "Retrieve._set_segment"
    cross_check = 0
    raises = ()

    def inputs(self):
        return {"segment": BytesArrK(), "cur": IntK(0), "offset": IntK(0), "rl": IntK(1), "datalen": IntK(1)}

    def requires(self, I, a):
        seg = as_sbytes(a["segment"])
        cur, off, rl, dl, L = Z(a["cur"]), Z(a["offset"]), Z(a["rl"]), Z(a["datalen"]), Z(seg.length)
        start = off / S7
        last = (off + rl - 1) / S7
        full = z3.If(dl - cur * S7 < S7, dl - cur * S7, S7)
        return z3.And(off + rl <= dl, cur >= start, cur <= last, L == full, L >= 1)

    def config(self):
        return {"overrides": dict(LOG)}

    def run(self, I, a):
        self._written = []
        cons = stub("consumer", write=lambda I_, a_, k_: self._written.append(a_[0]))
        off, rl = Z(a["offset"]), Z(a["rl"])
        r = SObj(self.module().Retrieve, {"_read_length": a["rl"], "_current_segment": a["cur"], "_last_segment": norm_int((off + rl - 1) / S7), "_start_segment": norm_int(off / S7),
                                          "_offset": a["offset"], "_segment_size": S7, "_verify": False, "_consumer": cons})
        I.call_value(self.target(I), [r], {}) if False else I.call_value(self.target(I), [r, a["segment"]], {})
        return r

    def ensures(self, I, a, out):
        seg = as_sbytes(a["segment"])
        cur, off, rl = Z(a["cur"]), Z(a["offset"]), Z(a["rl"])
        lo = z3.If(off > cur * S7, off, cur * S7)
        hi = z3.If(off + rl < cur * S7 + Z(seg.length), off + rl, cur * S7 + Z(seg.length))
        g = [("one-write-per-segment", z3.BoolVal(len(self._written) == 1)), ("the-next-segment-is-current", Z(out.value.fields["_current_segment"]) == cur + 1)]
        if len(self._written) == 1:
            w = as_sbytes(self._written[0])
            g += [("the-written-length-is-the-part-of-the-read-range-inside-this-segment", Z(w.length) == hi - lo),
                  ("the-written-bytes-are-the-file-bytes-of-that-part", forall_range(0, hi - lo, lambda i: w.at(i) == seg.at(lo - cur * S7 + i)))]
        return g

    def canary(self, I, a, out):
        return [("canary", Z(as_sbytes(self._written[0]).length) == Z(as_sbytes(a["segment"]).length))]


def transforming_failures():
    from allmydata.mutable.publish import TransformingUploadable, MutableData
    bad = []
    n = 0
    for S in range(1, 6):
        for flen in (0, 1, S, 2 * S + 1, 20):
            old = bytes(100 + i for i in range(flen))
            for off in range(0, min(flen, 12) + 1):
                for nl in range(0, 11):
                    new = bytes(200 + i for i in range(nl))
                    want_file = old[:off] + new + old[off + nl:]
                    first = off // S
                    end_data = off + nl
                    start_seg = old[first * S:(first + 1) * S]
                    lastseg = (end_data // S)
                    end_seg = old[lastseg * S:(lastseg + 1) * S]
                    n += 1
                    try:
                        t = TransformingUploadable(MutableData(new), off, S, start_seg, end_seg)
                        total = max(end_data, min(flen, (lastseg + 1) * S)) - first * S if nl or True else 0
                        # Publish reads whole segments from the starting segment up to the end of the last touched one
                        want = want_file[first * S: max(end_data, min(len(want_file), (lastseg + 1) * S))]
                        got = b""
                        remaining = len(want)
                        while remaining > 0:
                            chunk = t.read(min(S, remaining))
                            if not chunk:
                                break
                            got += chunk
                            remaining -= len(chunk)
                        ok = got == want
                    except Exception as e:      # noqa
                        ok, got = False, repr(e).encode()
                    if not ok:
                        bad.append({"segment_size": S, "file_length": flen, "offset": off, "new_length": nl, "got": got.hex(), "want": want.hex()})
    return bad, n


def grid_scenarios(rep, tier):
    """end-to-end sequences of create / overwrite / modify / update / read on an in-memory grid (contracts/mutable_grid.py)"""
    import json, os, subprocess, sys
    from concurrent.futures import ThreadPoolExecutor
    nproc, nscen = (8, 12) if tier == "quick" else (16, 150)

    def one(seed):
        try:
            r = subprocess.run([sys.executable, "-m", "contracts.mutable_grid", str(seed), str(nscen)], capture_output=True, text=True, timeout=1500, cwd="/verif", env=dict(os.environ))
            line = [ln for ln in r.stdout.splitlines() if ln.startswith("{")]
            return json.loads(line[-1]) if line else {"scenarios": 0, "operations": 0, "failed_operations": [], "problems": [{"scenario": -1, "what": "harness produced no report: " + (r.stderr or "")[-300:]}]}
        except Exception as e:      # noqa
            return {"scenarios": 0, "operations": 0, "failed_operations": [], "problems": [{"scenario": -1, "what": "harness crashed: %r" % (e,)}]}
    with ThreadPoolExecutor(nproc) as ex:
        reports = list(ex.map(one, [rep.seed * 100 + i for i in range(nproc)]))
    name = "Scenarios:every-read-after-a-successful-operation-equals-the-byte-string-model"
    nops = sum(r["operations"] for r in reports)
    rep.obligations += 1
    rep.bounded_obligations += 1
    rep.paths += nops
    rep.sym_paths += nops
    nfailed = sum(len(r["failed_operations"]) for r in reports)
    rep.bounds.append("mutable scenarios: %d sequences (%d operations) of create/overwrite/modify/update/read on MDMF and SDMF files of 1 byte .. 3 segments, 10 in-memory servers, k=3; %d operations raised and ended their scenario (not counted as violations)" % (sum(r["scenarios"] for r in reports), nops, nfailed))
    harness = [p for r in reports for p in r["problems"] if p.get("scenario") == -1]
    bad = [p for r in reports for p in r["problems"] if p.get("scenario") != -1]
    if harness and not bad:
        rep.undecided.append({"spec": "Scenarios", "why": harness[0]["what"]})
        return
    if not bad:
        rep.discharged += 1
        rep.discharged_names.add(name)
        return
    b = min(bad, key=lambda p: len(p.get("history", [])))
    rep.violations.append({"property": "C09", "contract": "Scenarios", "obligation": name, "status": "runtime", "inputs": {"history": b.get("history")},
                           "native_outcome": "%s (%d failing scenarios)" % (b["what"], len(bad)), "confirmed_on_real_code": True})


def extra_checks(rep, tier):
    grid_scenarios(rep, tier)
    bad, n = transforming_failures()
    name = "TransformingUploadable:segment-wise-reads-yield-old-prefix-new-data-old-suffix"
    rep.obligations += 1
    rep.bounded_obligations += 1
    rep.paths += n
    rep.sym_paths += n
    rep.bounds.append("TransformingUploadable: segment sizes 1..5, file lengths {0,1,S,2S+1,20}, offsets 0..12, new data 0..10 bytes (%d cases)" % n)
    if not bad:
        rep.discharged += 1
        rep.discharged_names.add(name)
        return
    rep.violations.append({"property": "C09", "contract": "TransformingUploadable", "obligation": name, "status": "runtime", "inputs": bad[0],
                           "native_outcome": "%d of %d cases fail; first: %r" % (len(bad), n, bad[0]), "confirmed_on_real_code": True})


S9 = 9


class UpdateRange(Spec):
    """MutableFileVersion._do_update_update: the servermap update is asked to fetch the segment containing the first
    updated byte and the segment containing the last updated byte (when the update ends before the old end of file)"""
    file = FN
    qualname = "MutableFileVersion._do_update_update"
    cross_check = 0
    raises = ()

    def inputs(self):
        return {"offset": IntK(0), "newsize": IntK(0), "filesize": IntK(0)}

    def requires(self, I, a):
        return Z(a["offset"]) <= Z(a["filesize"])

    def config(self):
        o = dict(LOG)
        o["interfaces.IMutableUploadable"] = None
        del o["interfaces.IMutableUploadable"]
        return {"overrides": o}

    def run(self, I, a):
        self._ranges = []
        data = stub("data", get_size=lambda I_, a_, k_: a["newsize"])
        from zope.interface import implementer
        from allmydata.interfaces import IMutableUploadable

        @implementer(IMutableUploadable)
        class U(object):
            pass
        data.cls = U
        v = SObj(self.module().MutableFileVersion, {"_version": (1, b"r", b"s", S9, 1000, 3, 10, b"p", ())})
        v.fields["get_size"] = stub("x", f=lambda I_, a_, k_: a["filesize"]).fields["f"]
        v.fields["is_mutable"] = stub("x", f=lambda I_, a_, k_: True).fields["f"]
        v.fields["_update_servermap"] = stub("x", f=lambda I_, a_, k_: (self._ranges.append(k_.get("update_range")), "servermap-deferred")[1]).fields["f"]
        I.call_value(self.target(I), [v, data, a["offset"]], {})
        return v

    def ensures(self, I, a, out):
        off, ns, fs = Z(a["offset"]), Z(a["newsize"]), Z(a["filesize"])
        g = [("one-servermap-update-with-a-range", z3.BoolVal(len(self._ranges) == 1 and isinstance(self._ranges[0], tuple) and len(self._ranges[0]) == 2))]
        if len(self._ranges) == 1 and isinstance(self._ranges[0], tuple):
            s, e = Z(self._ranges[0][0]), Z(self._ranges[0][1])
            last = off + ns - 1
            g += [("the-start-segment-contains-the-first-updated-byte", z3.And(s * S9 <= off, off < (s + 1) * S9)),
                  ("the-end-segment-contains-the-last-updated-byte-when-old-data-follows-it", z3.Implies(off + ns < fs, z3.And(e * S9 <= last, last < (e + 1) * S9))),
                  ("otherwise-no-old-tail-is-needed", z3.Implies(off + ns >= fs, e == s))]
        return g

    def canary(self, I, a, out):
        return [("canary", Z(self._ranges[0][1]) == Z(self._ranges[0][0]))]


class UpdaterRange(Spec):
    """ServermapUpdater.__init__: an update range (start, end) makes the updater fetch blocks of exactly those two segments"""
    file = "allmydata/mutable/servermap.py"
    qualname = "ServermapUpdater.__init__"
    cross_check = 0
    raises = ()

    def inputs(self):
        return {"s": IntK(0), "e": IntK(0)}

    def config(self):
        o = dict(LOG)
        o.update({"servermap.si_b2a": lambda I, a, kw: b"abcdefgh", "uri.si_b2a": lambda I, a, kw: b"abcdefgh", "server.si_b2a": lambda I, a, kw: b"abcdefgh",
                  "servermap.UpdateStatus": lambda I, a, kw: stub("status", set_storage_index=noop, set_progress=noop, set_mode=noop)})
        return {"overrides": o}

    def run(self, I, a):
        from allmydata.mutable.common import MODE_WRITE
        M = self.module()
        node = stub("node", get_storage_index=lambda I_, a_, k_: b"s" * 16, get_privkey=lambda I_, a_, k_: "priv")
        u = SObj(M.ServermapUpdater, {})
        I.call_value(self.target(I), [u, node, "broker", "monitor", "servermap"], {"mode": MODE_WRITE, "update_range": (a["s"], a["e"])})
        return u

    def ensures(self, I, a, out):
        u = out.value
        return [("update-data-will-be-fetched", z3.BoolVal(u.fields.get("fetch_update_data") is True)),
                ("first-boundary-segment-is-the-start-of-the-range", Z(u.fields["start_segment"]) == Z(a["s"])),
                ("last-boundary-segment-is-the-end-of-the-range", Z(u.fields["end_segment"]) == Z(a["e"]))]

    def canary(self, I, a, out):
        return [("canary", Z(out.value.fields["end_segment"]) == Z(a["s"]))]


class _Stop(Exception):
    pass


class UpdateLength(Spec):
    """Publish.update: the length of the file being updated is the one recorded in the verinfo of the surveyed version
    (or the end of the new data if that is larger) -- never the node's cached size"""
    file = PB
    qualname = "Publish.update"
    cross_check = 0
    raises = ()

    def inputs(self):
        return {"cached": IntK(0), "verlen": IntK(0), "datasize": IntK(0)}

    def config(self):
        me = self
        o = dict(LOG)

        def stop(I, a, kw):
            me._seen.append(a[0].fields.get("datalength"))
            raise _Stop()
        o["Publish.setup_encoding_parameters"] = stop
        o["defer.Deferred"] = lambda I, a, kw: "deferred"
        o["twisted.internet.defer.Deferred"] = o["defer.Deferred"]
        o["time.time"] = lambda I, a, kw: 0
        return {"overrides": o}

    def run(self, I, a):
        from allmydata.mutable.common import MODE_WRITE
        from zope.interface import implementer
        from allmydata.interfaces import IMutableUploadable

        @implementer(IMutableUploadable)
        class U(object):
            pass
        self._seen = []
        data = stub("uploadable", get_size=lambda I_, a_, k_: a["datasize"])
        data.cls = U
        node = stub("node", get_size=lambda I_, a_, k_: a["cached"], get_writekey=lambda I_, a_, k_: b"w" * 16, get_readkey=lambda I_, a_, k_: b"r" * 16, get_required_shares=lambda I_, a_, k_: 3,
                    get_total_shares=lambda I_, a_, k_: 10, get_pubkey=lambda I_, a_, k_: "pub", get_privkey=lambda I_, a_, k_: "priv", get_encprivkey=lambda I_, a_, k_: b"e")
        sm = stub("servermap", get_last_update=lambda I_, a_, k_: (MODE_WRITE, 0), highest_seqnum=lambda I_, a_, k_: 4)
        sb = stub("broker", get_servers_for_psi=lambda I_, a_, k_: [])
        st = stub("status", set_size=noop, set_status=noop, set_servermap=noop, set_encoding=noop, timings={})
        p = SObj(self.module().Publish, {"_node": node, "_servermap": sm, "_storage_broker": sb, "_status": st, "_storage_index": b"s" * 16})
        version = (4, b"R" * 32, b"S" * 16, 131073, a["verlen"], 3, 10, b"prefix", ())
        try:
            I.call_value(self.target(I), [p, data, 0, {}, version], {})
        except _Stop:
            pass
        return p

    def ensures(self, I, a, out):
        v, ds = Z(a["verlen"]), Z(a["datasize"])
        ok = len(self._seen) == 1 and self._seen[0] is not None
        return [("the-encoding-parameters-are-computed-from-a-length", z3.BoolVal(ok)),
                ("that-length-is-the-surveyed-versions-length-or-the-end-of-the-new-data", (Z(self._seen[0]) == z3.If(ds > v, ds, v)) if ok else z3.BoolVal(False))]

    def canary(self, I, a, out):
        return [("canary", Z(self._seen[0]) == Z(a["verlen"]))]


def contracts(tier):
    from contracts import C36
    return [ModifyOnce(), PublishSegments(), SetSegment(), UpdateRange(), UpdaterRange(), UpdateLength(), C36.MutableDecodeBlocks()]
