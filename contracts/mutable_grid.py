"""Run-time scenario harness for mutable files (C09, C47 regressions): the REAL NodeMaker, MutableFileNode / MutableFileVersion,
ServermapUpdater, Publish, TransformingUploadable, Retrieve and layout proxies on ten in-memory storage servers with
test-and-set semantics; every operation is mirrored on a byte-string model.  Run as a subprocess (it owns the reactor):

    python -m contracts.mutable_grid <seed> <number of scenarios>      -> one JSON object on stdout
"""
import json
import random
import sys
from io import BytesIO


def main_(seed, nscen):
    from allmydata.util import cputhreadpool
    cputhreadpool._DISABLED = True      # zfec and RSA key generation run inline: reproducible schedules
    from twisted.internet import defer, reactor
    from foolscap.api import fireEventually
    from allmydata import client
    from allmydata.node import config_from_string
    from allmydata.nodemaker import NodeMaker
    from allmydata.interfaces import SDMF_VERSION, MDMF_VERSION
    from allmydata.util import base32, mathutil
    from allmydata.util.hashutil import tagged_hash
    from allmydata.util.consumer import MemoryConsumer
    from allmydata.storage_client import StorageFarmBroker
    from allmydata.mutable.publish import MutableData, DEFAULT_MUTABLE_MAX_SEGMENT_SIZE

    class FakeStorage(object):
        def __init__(self):
            self._peers = {}

        def read(self, peerid, storage_index):
            return fireEventually(self._peers.get(peerid, {}))

        def write(self, peerid, storage_index, shnum, offset, data):
            shares = self._peers.setdefault(peerid, {})
            f = BytesIO()
            f.write(shares.get(shnum, b""))
            f.seek(offset)
            f.write(data)
            shares[shnum] = f.getvalue()

    class FakeStorageServer(object):
        def __init__(self, peerid, storage):
            self.peerid, self.storage = peerid, storage

        def callRemote(self, methname, *args, **kwargs):
            d = fireEventually()
            d.addCallback(lambda res: getattr(self, methname)(*args, **kwargs))
            return d

        def callRemoteOnly(self, methname, *args, **kwargs):
            self.callRemote(methname, *args, **kwargs).addBoth(lambda ignore: None)

        def advise_corrupt_share(self, share_type, storage_index, shnum, reason):
            pass

        def slot_readv(self, storage_index, shnums, readv):
            d = self.storage.read(self.peerid, storage_index)
            d.addCallback(lambda shares: {sn: [shares[sn][o:o + ln] for (o, ln) in readv] for sn in shares if not shnums or sn in shnums})
            return d

        def slot_testv_and_readv_and_writev(self, storage_index, secrets, tw_vectors, read_vector):
            shares = self.storage._peers.get(self.peerid, {})
            readv = {sn: [shares[sn][o:o + ln] for (o, ln) in read_vector] for sn in shares}
            ok = all(shares.get(sn, b"")[o:o + ln] == spec for sn, (testv, writev, nl) in tw_vectors.items() for (o, ln, op, spec) in testv)
            if ok:
                for sn, (testv, writev, nl) in tw_vectors.items():
                    for (o, data) in writev:
                        self.storage.write(self.peerid, storage_index, sn, o, data)
            return fireEventually((ok, readv))

    def make_nodemaker(storage, num_peers=10):
        cfg = config_from_string("/dev/null", "tub.port", "")
        sb = StorageFarmBroker(True, None, cfg)
        for i in range(num_peers):
            peerid = base32.b2a(tagged_hash(b"peerid", b"%d" % i)[:20])
            ann = {"anonymous-storage-FURL": "pb://%s@nowhere/fake" % str(peerid, "utf-8"), "permutation-seed-base32": peerid}
            sb.test_add_rref(peerid, FakeStorageServer(peerid, storage), ann)
        sh = client.SecretHolder(b"lease secret", b"convergence secret")
        return NodeMaker(sb, sh, None, None, None, {"k": 3, "n": 10}, SDMF_VERSION, client.KeyGenerator())

    SEG = mathutil.next_multiple(DEFAULT_MUTABLE_MAX_SEGMENT_SIZE, 3)
    rng = random.Random(seed)
    report = {"scenarios": 0, "operations": 0, "failed_operations": [], "problems": []}

    def blob(n):
        a, b = rng.randrange(1, 251), rng.randrange(251)
        return bytes((i * a + b) % 251 for i in range(n))

    def interesting_size():
        return rng.choice([1, 17, 5000, SEG - 1, SEG, SEG + 1, SEG + 5000, 2 * SEG + 7000, 3 * SEG])

    @defer.inlineCallbacks
    def scenario(idx):
        version = MDMF_VERSION if (idx % 3 != 2) else SDMF_VERSION
        nm = make_nodemaker(FakeStorage())
        if idx == 0:
            # regression for D24: create (2 segments) -> modify (grow to 4) -> update in the middle, no download in between
            model = blob(SEG + 5000)
            node = yield nm.create_mutable_file(MutableData(model), version=MDMF_VERSION)
            script = [("modify-grow", 2 * SEG, None), ("update", SEG + 100, 300), ("read", None, None)]
        else:
            model = blob(interesting_size())
            node = yield nm.create_mutable_file(MutableData(model), version=version)
            script = []
            for _ in range(rng.randint(2, 4)):
                script.append(rng.choice([("update", None, None), ("update", None, None), ("modify-grow", rng.choice([1, 5000, SEG]), None), ("modify-shrink", None, None),
                                          ("overwrite", None, None), ("read", None, None)]))
            script.append(("read", None, None))
        history = ["create %s %d bytes" % ("MDMF" if version == MDMF_VERSION or idx == 0 else "SDMF", len(model))]
        for (op, x, y) in script:
            report["operations"] += 1
            try:
                if op == "update":
                    off = x if x is not None else rng.choice([0, len(model), max(0, len(model) - 10), rng.randrange(len(model) + 1), (len(model) // SEG) * SEG])
                    off = min(off, len(model))
                    ln = y if y is not None else rng.choice([1, 300, 5000, SEG, SEG + 300])
                    if len(model) == 0 or (off == len(model) and len(model) % SEG == 0):
                        continue        # known to raise on the pinned tree (not a read-back violation): see DESIGN 9.4
                    new = blob(ln)
                    history.append("update(offset=%d, %d bytes)" % (off, ln))
                    mv = yield node.get_best_mutable_version()
                    yield mv.update(MutableData(new), off)
                    model = model[:off] + new + model[off + ln:]
                elif op == "modify-grow":
                    extra = blob(x)
                    history.append("modify(append %d bytes)" % x)
                    want = model + extra
                    yield node.modify(lambda old, servermap, first_time, want=want: want)
                    model = want
                elif op == "modify-shrink":
                    want = model[:len(model) // 2]
                    history.append("modify(keep first %d bytes)" % len(want))
                    yield node.modify(lambda old, servermap, first_time, want=want: want)
                    model = want
                elif op == "overwrite":
                    want = blob(interesting_size())
                    history.append("overwrite(%d bytes)" % len(want))
                    yield node.overwrite(MutableData(want))
                    model = want
                else:
                    history.append("read")
            except Exception as e:      # noqa  -- an operation that fails is not a read-back violation; stop this scenario
                report["failed_operations"].append({"scenario": idx, "history": history, "error": repr(e)[:200]})
                return
            try:
                got = yield node.download_best_version()
                if got != model:
                    first = next((i for i in range(min(len(got), len(model))) if got[i] != model[i]), None)
                    report["problems"].append({"scenario": idx, "history": history, "what": "whole-file read-back differs: length %d, model %d, first difference at %s" % (len(got), len(model), first)})
                    return
                if len(model) > 2:
                    o = rng.randrange(len(model))
                    s = rng.randrange(1, len(model) - o + 1)
                    mv = yield node.get_best_readable_version()
                    c = MemoryConsumer()
                    yield mv.read(c, o, s)
                    part = b"".join(c.chunks)
                    if part != model[o:o + s]:
                        report["problems"].append({"scenario": idx, "history": history + ["read(offset=%d, size=%d)" % (o, s)], "what": "partial read returned %d bytes, wanted %d; equal prefix %s" % (len(part), s, part == model[o:o + len(part)])})
                        return
            except Exception as e:      # noqa
                report["problems"].append({"scenario": idx, "history": history, "what": "read after a successful operation failed: %r" % (repr(e)[:300],)})
                return
        report["scenarios"] += 1

    @defer.inlineCallbacks
    def run_all():
        for i in range(nscen):
            yield scenario(i)

    def go():
        d = run_all()
        d.addErrback(lambda f: report["problems"].append({"scenario": -1, "what": "harness error: " + f.getTraceback()[-400:]}))
        d.addBoth(lambda _: reactor.stop())
    reactor.callWhenRunning(go)
    reactor.run()
    print(json.dumps(report))


if __name__ == "__main__":
    main_(int(sys.argv[1]), int(sys.argv[2]))
