"""Run-time scenario harness for immutable files (bounded end-to-end stand-in used by C01, C02, C03, C04, C46): the REAL
Encoder / EncryptAnUploadable / WriteBucketProxy produce the shares; the REAL ImmutableFileNode / DownloadNode / Segmentation
/ ShareFinder / SegmentFetcher / Share read them back from in-memory servers whose shares can be missing, corrupted,
truncated, swapped with another file's, or whose server fails.  Run as a subprocess (it owns the reactor):

    python -m contracts.immutable_grid <seed> <number of scenarios>      -> one JSON object on stdout
"""
import json
import random
import sys
import warnings


def main_(seed, nscen):
    warnings.simplefilter("ignore")
    from twisted.internet import defer, reactor, task
    from twisted.python.failure import Failure
    from foolscap.api import fireEventually
    from allmydata import uri, hashtree
    from allmydata.interfaces import NotEnoughSharesError, NoSharesError
    from allmydata.immutable import upload, encode
    from allmydata.immutable.layout import make_write_bucket_proxy
    from allmydata.immutable.filenode import ImmutableFileNode
    from allmydata.util.consumer import MemoryConsumer
    from allmydata.util import cputhreadpool
    try:
        cputhreadpool.disable_thread_pool_for_test  # noqa
    except AttributeError:
        pass
    if hasattr(cputhreadpool, "_DISABLED"):
        cputhreadpool._DISABLED = True          # run zfec inline: deterministic, no thread pool to shut down

    class WriteRref(object):
        def __init__(self):
            self.data = bytearray()

        def callRemote(self, name, *args):
            if name == "write":
                offset, data = args
                end = offset + len(data)
                if len(self.data) < end:
                    self.data.extend(b"\x00" * (end - len(self.data)))
                self.data[offset:end] = data
            return fireEventually(None)

    class UploadServer(object):
        def __init__(self, name):
            self.name = name

        def get_name(self):
            return self.name
        get_serverid = get_longname = get_name

    @defer.inlineCallbacks
    def make_file(data, k, n, max_segment_size, convergence=b"c" * 16):
        u = upload.Data(data, convergence=convergence)
        u.set_default_encoding_parameters({"k": k, "happy": 1, "n": n, "max_segment_size": max_segment_size})
        eu = upload.EncryptAnUploadable(u)
        enc = encode.Encoder()
        yield enc.set_encrypted_uploadable(eu)
        ht = hashtree.IncompleteHashTree(n)
        num_share_hashes = len(ht.needed_hashes(0, include_leaf=True))
        rrefs, landlords, servermap = {}, {}, {}
        for shnum in range(n):
            rrefs[shnum] = WriteRref()
            srv = UploadServer(b"up%d" % shnum)
            landlords[shnum] = make_write_bucket_proxy(rrefs[shnum], srv, enc.get_param("share_size"), enc.get_param("block_size"), enc.get_param("num_segments"),
                                                       num_share_hashes, enc.get_uri_extension_size())
            servermap[shnum] = set([srv.get_serverid()])
        enc.set_shareholders(landlords, servermap)
        verifycap = yield enc.start()
        key = yield u.get_encryption_key()
        cap = uri.CHKFileURI(key=key, uri_extension_hash=verifycap.uri_extension_hash, needed_shares=k, total_shares=n, size=len(data))
        return (cap, dict((shnum, bytes(r.data)) for shnum, r in rrefs.items()))

    class Bucket(object):
        def __init__(self, data, server):
            self.data, self.server = data, server

        def callRemote(self, name, *args):
            s = self.server
            if name == "read":
                offset, length = args
                s.reads += 1
                if s.dies_after is not None and s.reads > s.dies_after:
                    d = fireEventually(None)
                    d.addCallback(lambda ign: Failure(RuntimeError("connection lost in the middle of the read")))
                    return d
                if s.delay:
                    return task.deferLater(reactor, s.delay, lambda: self.data[offset:offset + length])
                return fireEventually(self.data[offset:offset + length])
            return fireEventually(None)

    class StorageServer(object):
        def __init__(self, server):
            self.server = server

        def get_buckets(self, storage_index):
            s = self.server
            if s.dead:
                d = fireEventually(None)
                d.addCallback(lambda ign: Failure(RuntimeError("server is gone")))
                return d
            return fireEventually(dict((shnum, Bucket(data, s)) for shnum, data in s.shares.items()))

    class Server(object):
        def __init__(self, name, shares, dead=False, dies_after=None, delay=0):
            self.name, self.shares, self.dead, self.dies_after, self.delay, self.reads = name, shares, dead, dies_after, delay, 0

        def get_name(self):
            return self.name
        get_longname = get_serverid = get_name

        def get_version(self):
            return {b"http://allmydata.org/tahoe/protocols/storage/v1": {b"tolerates-immutable-read-overrun": True}}

        def get_storage_server(self):
            return StorageServer(self)

    class Broker(object):
        def __init__(self, servers):
            self.servers = servers

        def get_servers_for_psi(self, si):
            return list(self.servers)

    class PausingConsumer(MemoryConsumer):
        """pauses its producer at the first write and resumes a little later"""
        def write(self, data):
            MemoryConsumer.write(self, data)
            if not getattr(self, "paused_once", False):
                self.paused_once = True
                self.producer.pauseProducing()
                reactor.callLater(0.01, self.producer.resumeProducing)

    class FidgetingConsumer(MemoryConsumer):
        """pauses and resumes within one write(), resumes twice, or resumes although never paused"""
        def write(self, data):
            MemoryConsumer.write(self, data)
            n = getattr(self, "nwrites", 0)
            self.nwrites = n + 1
            if n % 3 == 0:
                self.producer.pauseProducing()
                self.producer.resumeProducing()
            elif n % 3 == 1:
                self.producer.pauseProducing()
                reactor.callLater(0.002, self.producer.resumeProducing)
                reactor.callLater(0.003, self.producer.resumeProducing)
            else:
                self.producer.resumeProducing()

    class CancellingConsumer(MemoryConsumer):
        """stops its producer at the first write"""
        def write(self, data):
            MemoryConsumer.write(self, data)
            if not getattr(self, "stopped", False):
                self.stopped = True
                self.producer.stopProducing()

    def start_read(node, offset=0, size=None, how="plain"):
        out = {"done": False, "offset": offset, "size": size, "how": how}
        c = {"plain": MemoryConsumer, "pause": PausingConsumer, "cancel": CancellingConsumer, "fidget": FidgetingConsumer}[how]()
        out["consumer"] = c
        d = node.read(c, offset, size)

        def _ok(ign):
            out["done"], out["data"] = True, b"".join(c.chunks)

        def _err(f):
            out["done"], out["error"], out["partial"] = True, f, b"".join(c.chunks)
        d.addCallbacks(_ok, _err)
        return out

    @defer.inlineCallbacks
    def wait_for(*reads):
        for i in range(3000):
            if all(r["done"] for r in reads):
                break
            yield task.deferLater(reactor, 0.005, lambda: None)

    rng = random.Random(seed)
    report = {"scenarios": 0, "reads": 0, "problems": []}

    def blob(n):
        a, b = rng.randrange(1, 251), rng.randrange(251)
        return bytes((i * a + b) % 251 for i in range(n))

    def judge(r, data, desc, intact, k):
        """the oracle: returns a problem dict or None"""
        want = data[r["offset"]:] if r["size"] is None else data[r["offset"]:r["offset"] + r["size"]]
        where = dict(desc, read=[r["offset"], r["size"], r["how"]])
        if not r["done"]:
            return dict(where, kind="hang", what="the read never completed although every server has answered or failed")
        if "data" in r:
            if r["data"] != want:
                return dict(where, kind="wrong_bytes", what="read returned WRONG BYTES: %d bytes, wanted %d, is-a-prefix=%s" % (len(r["data"]), len(want), r["data"] == want[:len(r["data"])]))
            return None
        if r["partial"] != want[:len(r["partial"])]:
            return dict(where, kind="wrong_bytes", what="bytes delivered before the error are not a prefix of the requested range")
        if r["how"] == "cancel":
            return None
        if len(intact) >= k:
            return dict(where, kind="unavailable", what="read failed (%s: %s) although %d intact shares >= k are on answering servers" % (r["error"].type.__name__, str(r["error"].value)[:120], len(intact)))
        if not r["error"].check(NotEnoughSharesError, NoSharesError):
            return dict(where, kind="wrong_error", what="read failed with %s instead of a not-enough-shares error: %s" % (r["error"].type.__name__, str(r["error"].value)[:200]))
        return None

    @defer.inlineCallbacks
    def literal_scenario(idx):
        from allmydata.immutable.literal import LiteralFileNode
        size = rng.choice([0, 1, 16, 54, 55, rng.randint(0, 55)])
        data = blob(size)
        results = yield upload.LiteralUploader().start(upload.Data(data, convergence=b"c" * 16))
        cap = results.get_uri()
        node = LiteralFileNode(uri.from_string(cap))
        desc = {"literal": True, "file_size": size}
        for (o, s) in [(0, None), (rng.randrange(size + 2), rng.choice([0, 1, size, rng.randrange(size + 2)])), (size, 3), (size + 4, None)]:
            r = start_read(node, o, s)
            yield wait_for(r)
            report["reads"] += 1
            p = judge(r, data, desc, set(), 0)
            if p:
                report["problems"].append(p)
                return
        report["scenarios"] += 1

    @defer.inlineCallbacks
    def scenario(idx):
        if idx % 10 == 9:
            yield literal_scenario(idx)
            return
        k, n = rng.choice([(1, 1), (1, 3), (2, 4), (3, 10), (3, 10), (7, 10), (4, 4)])
        seg = rng.choice([64 * k, 1024, 4096])
        seg = max(k, (seg // k) * k)
        size = rng.choice([56, 57, seg - 1, seg, seg + 1, 3 * seg, 3 * seg + 17, rng.randint(56, 6 * seg)])
        size = max(size, 56)
        data = blob(size)
        cap, shares = yield make_file(data, k, n, seg)
        other_cap, other_shares = yield make_file(blob(size), k, n, seg, convergence=b"d" * 16)
        other_k = 1 if k > 1 else 2
        other_enc_cap, other_enc_shares = yield make_file(data, other_k, max(n, other_k), seg)
        fates = {}
        for sh in range(n):
            fates[sh] = rng.choice(["good"] * 5 + ["slow", "missing", "missing", "flip", "flip", "truncate", "truncate-header", "foreign", "other-encoding", "dead", "dies"])
        if idx % 4 == 0:
            for sh in range(n):
                fates[sh] = rng.choice(["good", "good", "slow"])
        servers = []
        intact = set()
        for sh in range(n):
            f, s = fates[sh], shares[sh]
            name = b"s%d" % sh
            if f == "good":
                intact.add(sh)
                servers.append(Server(name, {sh: s}))
            elif f == "slow":
                intact.add(sh)
                servers.append(Server(name, {sh: s}, delay=rng.choice([0.002, 0.01])))
            elif f == "missing":
                servers.append(Server(name, {}))
            elif f == "flip":
                pos = rng.randrange(len(s))
                servers.append(Server(name, {sh: s[:pos] + bytes([s[pos] ^ (1 << rng.randrange(8))]) + s[pos + 1:]}))
            elif f == "truncate":
                servers.append(Server(name, {sh: s[:rng.randrange(len(s))]}))
            elif f == "truncate-header":
                servers.append(Server(name, {sh: s[:rng.randrange(0x24)]}))
            elif f == "foreign":
                servers.append(Server(name, {sh: other_shares[sh]}))
            elif f == "other-encoding":
                servers.append(Server(name, {sh: other_enc_shares[sh]}))
            elif f == "dies":
                servers.append(Server(name, {sh: s}, dies_after=rng.randrange(0, 6)))
            else:
                servers.append(Server(name, {sh: s}, dead=True))
        # sometimes a server also holds a second (intact) share
        if n > 1 and rng.random() < 0.3:
            extra = rng.randrange(n)
            holder = rng.choice([sv for sv in servers if not sv.dead and sv.dies_after is None])  if any(not sv.dead and sv.dies_after is None for sv in servers) else None
            if holder is not None and extra not in holder.shares:
                holder.shares[extra] = shares[extra]
                intact.add(extra)
        rng.shuffle(servers)
        node = ImmutableFileNode(cap, Broker(servers), None, None, None)
        plan = [(0, None, "plain")]
        for i in range(4):
            o = rng.choice([0, 1, 15, 16, 17, seg - 1, seg, size - 1, size, size + 5, rng.randrange(size + 1)])
            plan.append((o, rng.choice([0, 1, 16, seg, size, rng.randrange(1, size + 2)]), rng.choice(["plain", "pause", "cancel", "fidget"]) if i == 0 else rng.choice(["plain", "plain", "plain", "fidget"])))
        desc = {"k": k, "n": n, "segment_size": seg, "file_size": size, "share_fates": [fates[i] for i in range(n)], "server_order": [sv.name.decode() for sv in servers]}
        # three reads at once on the same node object, then the rest one by one (so that reads follow failed reads)
        batches = [plan[:3]] + [[p] for p in plan[3:]]
        for batch in batches:
            reads = [start_read(node, o, s, how) for (o, s, how) in batch]
            yield wait_for(*reads)
            for r in reads:
                report["reads"] += 1
                p = judge(r, data, desc, intact, k)
                if p:
                    report["problems"].append(p)
                    return
        report["scenarios"] += 1

    @defer.inlineCallbacks
    def run_all():
        for i in range(nscen):
            yield scenario(i)

    def go():
        d = run_all()
        d.addErrback(lambda f: report["problems"].append({"kind": "harness", "what": "harness error: " + f.getTraceback()[-600:]}))
        d.addBoth(lambda _: reactor.stop())
    reactor.callWhenRunning(go)
    reactor.run()
    print(json.dumps(report))


KINDS = {
    "C01": ("wrong_bytes", "unavailable", "hang", "wrong_error"),     # judged on scenarios where every share is intact
    "C02": ("wrong_bytes",),
    "C03": ("unavailable", "wrong_error"),
    "C04": ("wrong_bytes",),
    "C46": ("hang",),
}


def grid_check(rep, tier, prop):
    """bounded run-time contract on ImmutableFileNode.read over seeded end-to-end scenarios (real Encoder, real downloader)"""
    import os
    import subprocess
    from concurrent.futures import ThreadPoolExecutor
    nproc, nscen = (8, 40) if tier == "quick" else (16, 600)

    def one(seed):
        try:
            r = subprocess.run([sys.executable, "-m", "contracts.immutable_grid", str(seed), str(nscen)], capture_output=True, text=True, timeout=3000, cwd="/verif", env=dict(os.environ))
            line = [ln for ln in r.stdout.splitlines() if ln.startswith("{")]
            return json.loads(line[-1]) if line else {"scenarios": 0, "reads": 0, "problems": [{"kind": "harness", "what": "harness produced no report: " + (r.stderr or "")[-300:]}]}
        except Exception as e:      # noqa
            return {"scenarios": 0, "reads": 0, "problems": [{"kind": "harness", "what": "harness crashed: %r" % (e,)}]}
    with ThreadPoolExecutor(nproc) as ex:
        reports = list(ex.map(one, [rep.seed * 100 + i for i in range(nproc)]))
    text = {"C01": "a-file-whose-shares-are-all-intact-reads-back-exactly", "C02": "no-read-delivers-bytes-that-differ-from-the-upload",
            "C03": "k-intact-shares-on-answering-servers-make-every-read-succeed-fewer-give-a-not-enough-shares-error",
            "C04": "every-range-read-alone-concurrent-paused-or-next-to-a-cancelled-one-gets-its-own-slice", "C46": "every-read-fires-its-Deferred-also-after-failed-reads"}[prop]
    name = "GridScenarios:" + text
    nreads = sum(r["reads"] for r in reports)
    rep.obligations += 1
    rep.bounded_obligations += 1
    rep.paths += nreads
    rep.sym_paths += nreads
    rep.bounds.append("immutable grid scenarios: %d files (%d reads) encoded by the real Encoder with k-of-n in {1/1,1/3,2/4,3/10,4/4,7/10}, segment sizes {64k,1024,4096}, sizes 0 .. 6 segments (literal files included), "
                      "each share good/slow/missing/bit-flipped/truncated/header-truncated/from another file/from another encoding/on a dead server/on a server dying mid-read, "
                      "3 concurrent reads (one may pause, cancel, or pause/resume within a write, resume twice or unasked) then 2 further reads on the same node" % (sum(r["scenarios"] for r in reports), nreads))
    harness = [p for r in reports for p in r["problems"] if p.get("kind") == "harness"]
    bad = [p for r in reports for p in r["problems"] if p.get("kind") in KINDS[prop]]
    if prop == "C01":
        bad = [p for p in bad if p.get("literal") or all(f in ("good", "slow") for f in p.get("share_fates", ["x"]))]
    if harness and not bad:
        rep.undecided.append({"spec": "GridScenarios", "why": harness[0]["what"]})
        return
    if not bad:
        rep.discharged += 1
        rep.discharged_names.add(name)
        return
    b = bad[0]
    rep.violations.append({"property": prop, "contract": "GridScenarios", "obligation": name, "status": "runtime", "inputs": dict((k_, v_) for k_, v_ in b.items() if k_ != "what"),
                           "native_outcome": "%s (%d failing scenarios)" % (b["what"], len(bad)), "confirmed_on_real_code": True})


if __name__ == "__main__":
    main_(int(sys.argv[1]), int(sys.argv[2]))
