"""Shared driver for the bounded run-time scenario contracts: runs `python -m contracts.<module> <seed> <n>` in parallel
subprocesses (each owns a reactor), merges their JSON reports and records ONE bounded obligation on the check's report."""
import json
import os
import subprocess
import sys
from concurrent.futures import ThreadPoolExecutor


def run(rep, tier, prop, module, kinds, name, bound, count_keys, quick=(8, 25), thorough=(16, 400), contract="GridScenarios", keep=None, known_kinds=None):
    nproc, nscen = quick if tier == "quick" else thorough

    def one(seed):
        try:
            r = subprocess.run([sys.executable, "-m", "contracts." + module, str(seed), str(nscen)], capture_output=True, text=True, timeout=6000, cwd="/verif", env=dict(os.environ))
            line = [ln for ln in r.stdout.splitlines() if ln.startswith("{")]
            return json.loads(line[-1]) if line else {"problems": [{"kind": "harness", "what": "harness produced no report: " + (r.stderr or "")[-400:]}]}
        except Exception as e:      # noqa
            return {"problems": [{"kind": "harness", "what": "harness crashed: %r" % (e,)}]}
    with ThreadPoolExecutor(nproc) as ex:
        reports = list(ex.map(one, [rep.seed * 100 + i for i in range(nproc)]))
    counts = dict((k_, sum(r.get(k_, 0) for r in reports)) for k_ in count_keys)
    notes = {}
    for r in reports:
        for k_, v in (r.get("notes") or {}).items():
            notes[k_] = notes.get(k_, 0) + v
    work = sum(counts.values()) or 1
    rep.obligations += 1
    rep.bounded_obligations += 1
    rep.paths += work
    rep.sym_paths += work
    rep.bounds.append("%s [%s%s]" % (bound, ", ".join("%d %s" % (v, k_) for k_, v in counts.items()), ("; outcomes not judged: " + ", ".join("%d x %s" % (v, k_) for k_, v in sorted(notes.items()))) if notes else ""))
    # problems of a kind that IS a listed known finding (identified by its own, narrower kind) are reported as such, never as violations
    for kind_, fid in (known_kinds or {}).items():
        if any(p.get("kind") == kind_ for r in reports for p in r["problems"]):
            from pyvc.runner import load_known_findings
            for f in load_known_findings():
                if f.get("id") == fid and f.get("status") == "known" and f.get("property") == prop and not any(k_["id"] == fid for k_ in rep.known):
                    rep.known.append(f)
    harness = [p for r in reports for p in r["problems"] if p.get("kind") == "harness"]
    bad = [p for r in reports for p in r["problems"] if p.get("kind") in kinds and (keep is None or keep(p))]
    full = contract + ":" + name
    if harness and not bad:
        rep.undecided.append({"spec": contract, "why": harness[0]["what"]})
        return
    if not bad:
        rep.discharged += 1
        rep.discharged_names.add(full)
        return
    b = bad[0]
    rep.violations.append({"property": prop, "contract": contract, "obligation": full, "status": "runtime", "inputs": dict((k_, v_) for k_, v_ in b.items() if k_ != "what"),
                           "native_outcome": "%s (%d failing scenarios)" % (b["what"], len(bad)), "confirmed_on_real_code": True})
