"""C23 Mutable share containers behave like byte arrays -- contracts on storage/mutable.py"""
import os
import z3
from pyvc.harness import Spec, IntK, BoolK, BytesArrK, ChoiceK, Outcome, Lemma
from pyvc.values import *  # noqa
from pyvc.models_ext2 import FileObj, PathTok
from contracts.lib import *  # noqa

LEVEL = "other"
MANIFEST_ENTRY = {"text": 'Level other because part of the obligations are shape-bounded (write/test/read vectors of length 0..2; the vector loop of writev is ALSO proved for any length by an invariant). Unbounded proof, for all container contents, offsets, lengths and data, that _read_share_data/_write_share_data/_change_container_size implement a growable byte array with zero gap fill and never alter leases, enabler or nodeid.', "note": 'Trusted: POSIX file model (atomic seek/read/write with zero gap fill), big-endian struct codec as uninterpreted bijection, pyvc engine, z3. Termination not proved. Sequences covered by composition of per-call contracts on well-formed containers.'}
MANIFEST_ENTRY["text"] += " Bounded end-to-end stand-in (run-time contract, never counted as proved): contracts/grid_http.py drives the real StorageServer through seeded histories (allocate, chunked/overlapping/conflicting/overrunning writes, abort, 31-minute timeout, reads, leases, read-test-write with failing tests, truncation, deletion, wrong write enabler) and compares it after every operation with a plain byte-array model: visible shares, bytes, space reserved for uploads in progress, mutable slots."
MANIFEST_ENTRY["technique"] = MANIFEST_ENTRY.get("technique", "contract-based deductive verification: pre/postconditions on the real functions, VCs generated from the AST, discharged by z3/cvc5") + "; plus a bounded run-time contract: the real StorageServer against a byte-array model over seeded histories (stand-in, labelled bounded)"
EXPLANATION = ("Pre/postconditions on the real MutableShareFile methods over an array model of the container file; "
               "every obligation holds for all file contents, offsets, lengths and data (no bound).")
TRUSTED = ["file model: POSIX seek/read/write incl. zero gap fill (DESIGN 2.6)",
           "struct big-endian codec as uninterpreted bijection (DESIGN 2.6)"]
ASSUMPTIONS = ["termination not proved"]
NOT_DECIDED = ("operation sequences are covered by composition of the per-call contracts (each call maps a well-formed "
               "container to a well-formed container with the stated view); StorageServer-level deletion on new_length==0 is C24.")

DLO, ELOO, HS, LS, DO = 84, 92, 100, 92, 468
F = "allmydata/storage/mutable.py"


def dl(c):
    return be(c, DLO, 8)


def elo(c):
    return be(c, ELOO, 8)


def nx(c):
    return be(c, elo(c), 4)


def WF(c, n):
    """representation invariant of a mutable container file (content c, length n)"""
    return z3.And(be_facts(c, DLO, 8), be_facts(c, ELOO, 8), be_facts(c, elo(c), 4),
                  elo(c) >= DO + dl(c), n >= elo(c) + 4 + LS * nx(c))


def view_at(c, i):
    return z3.Select(c, DO + i)


def leases_same(c0, c1):
    """4 header lease slots and the extra-lease block (count + records) are byte-identical"""
    return z3.And(forall_range(HS, DO, lambda k: z3.Select(c1, k) == z3.Select(c0, k)),
                  nx(c1) == nx(c0),
                  forall_range(0, 4 + LS * nx(c0), lambda k: z3.Select(c1, elo(c1) + k) == z3.Select(c0, elo(c0) + k)))


def header_same(c0, c1):
    return forall_range(0, DLO, lambda k: z3.Select(c1, k) == z3.Select(c0, k))


def gen_container(rng):
    """a real, well-formed container produced by the real code"""
    import tempfile, shutil
    from allmydata.storage.mutable import MutableShareFile
    from allmydata.storage.lease import LeaseInfo
    d = tempfile.mkdtemp(prefix="pyvc-")
    try:
        p = os.path.join(d, "s")
        ms = MutableShareFile(p)
        ms.create(b"n" * 20, bytes(rng.randrange(256) for _ in range(32)))
        for _ in range(rng.randint(0, 3)):
            ms.writev([(rng.randint(0, 60), bytes(rng.randrange(256) for _ in range(rng.randint(0, 30))))],
                      rng.choice([None, None, rng.randint(0, 50)]))
        for i in range(rng.choice([0, 1, 2, 4, 5, 6, 7])):
            ms.add_lease(10 ** 9, LeaseInfo(i + 1, bytes([i + 1]) * 32, bytes([i + 101]) * 32, 1000 + i, b"N" * 20))
        for _ in range(rng.randint(0, 2)):
            ms.writev([(rng.randint(0, 90), bytes(rng.randrange(256) for _ in range(rng.randint(0, 30))))],
                      rng.choice([None, None, rng.randint(0, 50)]))
        return open(p, "rb").read()
    finally:
        shutil.rmtree(d, ignore_errors=True)


class _MSF(Spec):
    file = F
    method = None
    raises = ()
    cross_check = 30

    @property
    def qualname(self):
        return "MutableShareFile." + self.method

    def msf_class(self):
        return self.module().MutableShareFile

    def mk_self(self, I):
        return SObj(self.msf_class(), {"home": PathTok("home")})

    def call_args(self, a):
        raise NotImplementedError

    def run(self, I, a):
        put_file(I, "home", a["file0"])
        f = FileObj("home", "rb+")
        try:
            v = I.call_value(self.target(I), [self.mk_self(I), f] + self.call_args(a), {})
            out = Outcome("return", v)
        except PyRaise as pr:
            out = Outcome("raise", exc=pr.exc, exc_cls=pr.cls)
        out.post = {"file": file_post(I, "home")}
        return out

    def native(self, a):
        from allmydata.storage.mutable import MutableShareFile
        with TempDir() as d:
            p = os.path.join(d, "share")
            with open(p, "wb") as fh:
                fh.write(a["file0"])
            ms = object.__new__(MutableShareFile)
            ms.home = p
            with open(p, "rb+") as f:
                out = native_outcome(lambda: getattr(MutableShareFile, self.method)(ms, f, *self.call_args(a)))
            out.post = {"file": open(p, "rb").read()}
            return out

    def same_result(self, n, s):
        from pyvc.runner import plain_equal
        return plain_equal(n.value, s.value) and plain_equal(n.post, s.post)


class ReadShareData(_MSF):
    method = "_read_share_data"

    def inputs(self):
        return {"file0": FileK(gen_container), "offset": IntK(0, rnd=lambda r: r.randint(0, 120)),
                "length": IntK(0, rnd=lambda r: r.randint(0, 120))}

    def requires(self, I, a):
        c, n = as_arr(a["file0"])
        return z3.And(WF(c, n), Z(a["offset"]) >= 0, Z(a["length"]) >= 0)

    def call_args(self, a):
        return [a["offset"], a["length"]]

    def ensures(self, I, a, out):
        c, n = as_arr(a["file0"])
        off, ln = Z(a["offset"]), Z(a["length"])
        r, rl = as_arr(out.value)
        end = z3.If(off + ln < dl(c), off + ln, dl(c))
        want = z3.If(end - off > 0, end - off, 0)
        c1, n1 = as_arr(out.post["file"])
        return [("length-clipped-at-data-length", rl == want),
                ("bytes-are-view-slice", forall_range(0, want, lambda k: z3.Select(r, k) == view_at(c, off + k))),
                ("file-unchanged", z3.And(n1 == n, forall_range(0, n, lambda k: z3.Select(c1, k) == z3.Select(c, k))))]

    def canary(self, I, a, out):
        r, rl = as_arr(out.value)
        return [("canary", rl == Z(a["length"]))]


class WriteShareData(_MSF):
    method = "_write_share_data"

    def inputs(self):
        return {"file0": FileK(gen_container), "offset": IntK(0, rnd=lambda r: r.randint(0, 150)),
                "data": BytesArrK(rndmax=60)}

    @property
    def raises(self):
        from allmydata.storage.common import DataTooLargeError
        return (DataTooLargeError,)

    def requires(self, I, a):
        c, n = as_arr(a["file0"])
        return z3.And(WF(c, n), Z(a["offset"]) >= 0)

    def call_args(self, a):
        return [a["offset"], a["data"]]

    def ensures(self, I, a, out):
        c, n = as_arr(a["file0"])
        off = Z(a["offset"])
        d, ln = as_arr(a["data"])
        c1, n1 = as_arr(out.post["file"])
        MAX = self.msf_class().MAX_SIZE
        if out.kind == "raise":
            return [("too-large-only-beyond-MAX_SIZE", off + ln > MAX),
                    ("too-large-leaves-file-unchanged", z3.And(n1 == n, forall_range(0, n, lambda k: z3.Select(c1, k) == z3.Select(c, k))))]
        newdl = z3.If(off + ln > dl(c), off + ln, dl(c))
        spec_byte = lambda i: z3.If(z3.And(i >= off, i < off + ln), z3.Select(d, i - off),
                                    z3.If(i < dl(c), view_at(c, i), z3.IntVal(0)))
        return [("well-formed-after", WF(c1, n1)),
                ("data-length-is-max", dl(c1) == newdl),
                ("view-is-array-write-with-zero-gap", forall_range(0, newdl, lambda i: view_at(c1, i) == spec_byte(i))),
                ("leases-unchanged", leases_same(c, c1)),
                ("enabler-and-nodeid-unchanged", header_same(c, c1)),
                ("fits-in-MAX_SIZE-or-container", z3.Or(off + ln <= MAX, DO + off + ln <= elo(c)))]

    def canary(self, I, a, out):
        c, n = as_arr(a["file0"])
        c1, n1 = as_arr(out.post["file"])
        return [("canary", dl(c1) == dl(c))]


class ChangeContainerSize(_MSF):
    method = "_change_container_size"

    def inputs(self):
        return {"file0": FileK(gen_container), "new_container_size": IntK(0, rnd=lambda r: r.randint(0, 400))}

    @property
    def raises(self):
        from allmydata.storage.common import DataTooLargeError
        return (DataTooLargeError,)

    def requires(self, I, a):
        c, n = as_arr(a["file0"])
        return z3.And(WF(c, n), Z(a["new_container_size"]) >= 0)

    def call_args(self, a):
        return [a["new_container_size"]]

    def ensures(self, I, a, out):
        c, n = as_arr(a["file0"])
        new = Z(a["new_container_size"])
        c1, n1 = as_arr(out.post["file"])
        MAX = self.msf_class().MAX_SIZE
        same = z3.And(n1 == n, forall_range(0, n, lambda k: z3.Select(c1, k) == z3.Select(c, k)))
        if out.kind == "raise":
            return [("too-large-iff", new > MAX), ("too-large-leaves-file-unchanged", same)]
        grown = DO + new >= elo(c)
        return [("well-formed-after", WF(c1, n1)),
                ("container-never-shrinks", elo(c1) == z3.If(grown, DO + new, elo(c))),
                ("data-length-unchanged", dl(c1) == dl(c)),
                ("view-unchanged", forall_range(0, dl(c), lambda i: view_at(c1, i) == view_at(c, i))),
                ("leases-unchanged", leases_same(c, c1)),
                ("enabler-and-nodeid-unchanged", header_same(c, c1)),
                ("old-lease-area-zeroed", forall_range(0, 4 + LS * nx(c), lambda k: z3.Implies(
                    z3.And(grown, elo(c) + k < elo(c1)), z3.Select(c1, elo(c) + k) == 0))),
                ("not-larger-than-MAX_SIZE", new <= MAX)]

    def canary(self, I, a, out):
        c, n = as_arr(a["file0"])
        c1, n1 = as_arr(out.post["file"])
        return [("canary", elo(c1) == elo(c))]


class WriteV(_MSF):
    """writev for a write vector of ANY length (loop cut by an invariant; each
    _write_share_data call is replaced by its contract = modular verification)."""
    method = "writev"
    cross_check = 30

    def inputs(self):
        return {"file0": FileK(gen_container), "datav": SListK([("offset", "int", 0), ("data", "bytes")]),
                "new_length": IntK(0, rnd=lambda r: r.randint(0, 120)), "has_new_length": ChoiceK([False, True])}

    def all_cases(self):
        return [{"has_new_length": False}, {"has_new_length": True}]

    @property
    def raises(self):
        from allmydata.storage.common import DataTooLargeError
        return (DataTooLargeError,)

    def requires(self, I, a):
        c, n = as_arr(a["file0"])
        return WF(c, n)

    def _nl(self, a):
        return a["new_length"] if a["has_new_length"] else None

    def config(self):
        me = self
        w = WriteShareData()

        def inv(I, env):
            st = I.disk["home"]
            c0, n0 = as_arr(me._a["file0"])
            return z3.And(WF(st.content, Z(st.length)), leases_same(c0, st.content), header_same(c0, st.content))

        def havoc_file(I, env):
            st = I.disk["home"]
            st.content = z3.Array(fresh_name("loop_file"), IntS, IntS)
            st.length = z3.Int(fresh_name("loop_flen"))
        from pyvc.interp import LoopInv
        return {"overrides": {"MutableShareFile._write_share_data": contract_call(
                    w, lambda I, args: {"offset": args[2], "data": args[3]})},
                "loop_invs": {("MutableShareFile.writev", 0): LoopInv(inv, havoc_extra=havoc_file)}}

    def run(self, I, a):
        self._a = a
        put_file(I, "home", a["file0"])
        try:
            v = I.call_value(self.target(I), [self.mk_self(I), a["datav"], self._nl(a)], {})
            out = Outcome("return", v)
        except PyRaise as pr:
            out = Outcome("raise", exc=pr.exc, exc_cls=pr.cls)
        out.post = {"file": file_post(I, "home")}
        return out

    def native(self, a):
        from allmydata.storage.mutable import MutableShareFile
        with TempDir() as d:
            p = os.path.join(d, "share")
            with open(p, "wb") as fh:
                fh.write(a["file0"])
            ms = object.__new__(MutableShareFile)
            ms.home = p
            out = native_outcome(lambda: ms.writev(list(a["datav"]), self._nl(a)))
            out.post = {"file": open(p, "rb").read()}
            return out

    def ensures(self, I, a, out):
        c, n = as_arr(a["file0"])
        c1, n1 = as_arr(out.post["file"])
        g = [("well-formed-after", WF(c1, n1)), ("leases-unchanged", leases_same(c, c1)),
             ("enabler-and-nodeid-unchanged", header_same(c, c1))]
        if out.kind == "return" and a["has_new_length"]:
            g.append(("truncated-to-new-length", dl(c1) <= Z(a["new_length"])))
        return g

    def canary(self, I, a, out):
        c, n = as_arr(a["file0"])
        c1, n1 = as_arr(out.post["file"])
        return [("canary", dl(c1) >= dl(c))]

    def same_result(self, n, s):
        from pyvc.runner import plain_equal
        return plain_equal(n.post, s.post)


class WriteVShapes(WriteV):
    """exact array semantics of writev for write vectors of 0, 1 and 2 entries (bounded shape,
    all offsets/lengths/bytes symbolic); longer vectors follow by induction on the same step."""
    level = "B"
    bound = "write vectors of length 0..2 (values unbounded)"
    cross_check = 0

    def inputs(self):
        return {"file0": FileK(gen_container), "o1": IntK(0), "d1": BytesArrK(), "o2": IntK(0), "d2": BytesArrK(),
                "new_length": IntK(0), "has_new_length": ChoiceK([False, True]), "nwrites": ChoiceK([0, 1, 2])}

    def all_cases(self):
        return [{"has_new_length": h, "nwrites": k} for h in (False, True) for k in (0, 1, 2)]

    def config(self):
        cfg = WriteV.config(self)
        cfg["loop_invs"] = {}
        return cfg

    def requires(self, I, a):
        c, n = as_arr(a["file0"])
        MAX = self.msf_class().MAX_SIZE
        return z3.And(WF(c, n), Z(a["o1"]) + as_arr(a["d1"])[1] <= MAX, Z(a["o2"]) + as_arr(a["d2"])[1] <= MAX)

    def run(self, I, a):
        a = dict(a)
        a["datav"] = [(a["o1"], a["d1"]), (a["o2"], a["d2"])][:a["nwrites"]]
        return WriteV.run(self, I, a)

    def native(self, a):
        a = dict(a)
        a["datav"] = [(a["o1"], a["d1"]), (a["o2"], a["d2"])][:a["nwrites"]]
        return WriteV.native(self, a)

    def ensures(self, I, a, out):
        c, n = as_arr(a["file0"])
        c1, n1 = as_arr(out.post["file"])
        if out.kind == "raise":
            return [("no-DataTooLarge-under-valid-request", z3.BoolVal(False))]
        # reference: growable byte array
        length = dl(c)
        byte = lambda i: view_at(c, i)
        for (o, d) in [(a["o1"], a["d1"]), (a["o2"], a["d2"])][:a["nwrites"]]:
            o = Z(o)
            da, ln = as_arr(d)
            byte = (lambda i, byte=byte, length=length, o=o, da=da, ln=ln:
                    z3.If(z3.And(i >= o, i < o + ln), z3.Select(da, i - o), z3.If(i < length, byte(i), z3.IntVal(0))))
            length = z3.If(o + ln > length, o + ln, length)
        if a["has_new_length"]:
            nl = Z(a["new_length"])
            length = z3.If(nl < length, nl, length)
        return [("length-is-reference-length", dl(c1) == length),
                ("bytes-are-reference-bytes", forall_range(0, length, lambda i: view_at(c1, i) == byte(i))),
                ("leases-unchanged", leases_same(c, c1))]

    canary = None


class CheckTestV(_MSF):
    """check_testv: result <=> every (offset, length, b"eq", specimen) equals the clipped view slice; file unchanged."""
    method = "check_testv"
    level = "B"
    bound = "test vectors of length 0..2 (offsets, lengths, specimens unbounded)"
    cross_check = 20
    empty_share = False

    def inputs(self):
        return {"file0": FileK(gen_container), "o1": IntK(0, rnd=lambda r: r.randint(0, 80)), "l1": IntK(0, rnd=lambda r: r.randint(0, 8)),
                "s1": BytesArrK(rndmax=8), "o2": IntK(0, rnd=lambda r: r.randint(0, 80)), "l2": IntK(0, rnd=lambda r: r.randint(0, 8)),
                "s2": BytesArrK(rndmax=8), "n": ChoiceK([0, 1, 2])}

    def all_cases(self):
        return [{"n": k} for k in (0, 1, 2)]

    def requires(self, I, a):
        c, n = as_arr(a["file0"])
        return WF(c, n)

    def tv(self, a):
        return [(a["o1"], a["l1"], b"eq", a["s1"]), (a["o2"], a["l2"], b"eq", a["s2"])][:a["n"]]

    def run(self, I, a):
        put_file(I, "home", a["file0"])
        v = I.call_value(self.target(I), [self.mk_self(I), self.tv(a)], {})
        out = Outcome("return", v)
        out.post = {"file": file_post(I, "home")}
        return out

    def native(self, a):
        from allmydata.storage.mutable import MutableShareFile
        with TempDir() as d:
            p = os.path.join(d, "share")
            with open(p, "wb") as fh:
                fh.write(a["file0"])
            ms = object.__new__(MutableShareFile)
            ms.home = p
            out = native_outcome(lambda: ms.check_testv(self.tv(a)))
            out.post = {"file": open(p, "rb").read()}
            return out

    def match(self, c, o, l, s):
        o, l = Z(o), Z(l)
        sa, sl = as_arr(s)
        end = z3.If(o + l < dl(c), o + l, dl(c))
        want = z3.If(end - o > 0, end - o, 0)
        return z3.And(sl == want, forall_range(0, want, lambda k: z3.Select(sa, k) == view_at(c, o + k)))

    def ensures(self, I, a, out):
        c, n = as_arr(a["file0"])
        c1, n1 = as_arr(out.post["file"])
        ms = [self.match(c, o, l, s) for (o, l, _, s) in self.tv(a)]
        allm = z3.And(ms) if ms else z3.BoolVal(True)
        r = out.value
        r = z3.BoolVal(r) if isinstance(r, bool) else r
        return [("result-iff-all-vectors-match-current-data", r == allm),
                ("file-unchanged", z3.And(n1 == n, forall_range(0, n, lambda k: z3.Select(c1, k) == z3.Select(c, k))))]

    def canary(self, I, a, out):
        r = out.value
        return [("canary", z3.BoolVal(r) if isinstance(r, bool) else r)]


class EmptyShareCheckTestV(Spec):
    """a missing share reads as empty: EmptyShare.check_testv <=> every specimen is b''."""
    file = F
    qualname = "EmptyShare.check_testv"
    level = "B"
    bound = "test vectors of length 0..2"
    cross_check = 50

    def inputs(self):
        return {"o1": IntK(0), "l1": IntK(0), "s1": BytesArrK(rndmax=2), "o2": IntK(0), "l2": IntK(0), "s2": BytesArrK(rndmax=2),
                "n": ChoiceK([0, 1, 2])}

    def all_cases(self):
        return [{"n": k} for k in (0, 1, 2)]

    def tv(self, a):
        return [(a["o1"], a["l1"], b"eq", a["s1"]), (a["o2"], a["l2"], b"eq", a["s2"])][:a["n"]]

    def run(self, I, a):
        return I.call_value(self.target(I), [SObj(self.module().EmptyShare), self.tv(a)], {})

    def native(self, a):
        from allmydata.storage.mutable import EmptyShare
        return native_outcome(lambda: EmptyShare().check_testv(self.tv(a)))

    def ensures(self, I, a, out):
        ms = [as_arr(s)[1] == 0 for (_, _, _, s) in self.tv(a)]
        r = out.value
        r = z3.BoolVal(r) if isinstance(r, bool) else r
        return [("result-iff-all-specimens-empty", r == (z3.And(ms) if ms else z3.BoolVal(True)))]

    def canary(self, I, a, out):
        r = out.value
        return [("canary", z3.Not(z3.BoolVal(r) if isinstance(r, bool) else r))]


class ReadV(CheckTestV):
    method = "readv"
    bound = "read vectors of length 0..2"

    def inputs(self):
        return {"file0": FileK(gen_container), "o1": IntK(0, rnd=lambda r: r.randint(0, 80)), "l1": IntK(0, rnd=lambda r: r.randint(0, 40)),
                "o2": IntK(0, rnd=lambda r: r.randint(0, 80)), "l2": IntK(0, rnd=lambda r: r.randint(0, 40)), "n": ChoiceK([0, 1, 2])}

    def tv(self, a):
        return [(a["o1"], a["l1"]), (a["o2"], a["l2"])][:a["n"]]

    def native(self, a):
        from allmydata.storage.mutable import MutableShareFile
        with TempDir() as d:
            p = os.path.join(d, "share")
            with open(p, "wb") as fh:
                fh.write(a["file0"])
            ms = object.__new__(MutableShareFile)
            ms.home = p
            out = native_outcome(lambda: ms.readv(self.tv(a)))
            out.post = {"file": open(p, "rb").read()}
            return out

    def ensures(self, I, a, out):
        c, n = as_arr(a["file0"])
        c1, n1 = as_arr(out.post["file"])
        g = [("one-result-per-vector", z3.BoolVal(len(out.value) == a["n"]))]
        for i, ((o, l), r) in enumerate(zip(self.tv(a), out.value)):
            g.append(("result-%d-is-clipped-view-slice" % i, self.match(c, o, l, r)))
        g.append(("file-unchanged", z3.And(n1 == n, forall_range(0, n, lambda k: z3.Select(c1, k) == z3.Select(c, k)))))
        return g

    def canary(self, I, a, out):
        return [("canary", z3.BoolVal(len(out.value) == 0))]


def extra_checks(rep, tier):
    from contracts import grid_http
    grid_http.grid_check(rep, tier, "C23")


def contracts(tier):
    # "a missing share reads as empty" is decided where the server picks what to test against: StorageServer._evaluate_test_vectors,
    # under the read-test-write contract of C24 (re-run here)
    from contracts import C24
    return [ReadShareData(), WriteShareData(), ChangeContainerSize(), WriteV(), WriteVShapes(), CheckTestV(),
            EmptyShareCheckTestV(), ReadV(), C24.SlotTestvReadvWritev()]
