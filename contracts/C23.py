"""C23 Mutable share containers behave like byte arrays -- contracts on storage/mutable.py"""
import os
import z3
from pyvc.harness import Spec, IntK, BoolK, BytesArrK, Outcome, Lemma
from pyvc.values import *  # noqa
from pyvc.models_ext2 import FileObj, PathTok
from contracts.lib import *  # noqa

LEVEL = "proof"
MANIFEST_ENTRY = {"text": 'Unbounded proof, for all container contents, offsets, lengths and data, that _read_share_data/_write_share_data/_change_container_size implement a growable byte array with zero gap fill and never alter leases, enabler or nodeid.', "note": 'Trusted: POSIX file model (atomic seek/read/write with zero gap fill), big-endian struct codec as uninterpreted bijection, pyvc engine, z3. Termination not proved. Sequences covered by composition of per-call contracts on well-formed containers.'}
EXPLANATION = ("Pre/postconditions on the real MutableShareFile methods over an array model of the container file; "
               "every obligation holds for all file contents, offsets, lengths and data (no bound).")
TRUSTED = ["file model: POSIX seek/read/write incl. zero gap fill (DESIGN 2.6)",
           "struct big-endian codec as uninterpreted bijection (DESIGN 2.6)"]
ASSUMPTIONS = ["termination not proved"]
NOT_DECIDED = ("operation sequences are covered by composition of the per-call contracts (each call maps a well-formed "
               "container to a well-formed container with the stated view); StorageServer-level deletion on new_length==0 is C24.")

DLO, ELOO, HS, LS, DO = 84, 92, 100, 92, 468
F = "allmydata/storage/mutable.py"


def dl(c):
    return be(c, DLO, 8)


def elo(c):
    return be(c, ELOO, 8)


def nx(c):
    return be(c, elo(c), 4)


def WF(c, n):
    """representation invariant of a mutable container file (content c, length n)"""
    return z3.And(be_facts(c, DLO, 8), be_facts(c, ELOO, 8), be_facts(c, elo(c), 4),
                  elo(c) >= DO + dl(c), n >= elo(c) + 4 + LS * nx(c))


def view_at(c, i):
    return z3.Select(c, DO + i)


def leases_same(c0, c1):
    """4 header lease slots and the extra-lease block (count + records) are byte-identical"""
    return z3.And(forall_range(HS, DO, lambda k: z3.Select(c1, k) == z3.Select(c0, k)),
                  nx(c1) == nx(c0),
                  forall_range(0, 4 + LS * nx(c0), lambda k: z3.Select(c1, elo(c1) + k) == z3.Select(c0, elo(c0) + k)))


def header_same(c0, c1):
    return forall_range(0, DLO, lambda k: z3.Select(c1, k) == z3.Select(c0, k))


def gen_container(rng):
    """a real, well-formed container produced by the real code"""
    import tempfile, shutil
    from allmydata.storage.mutable import MutableShareFile
    from allmydata.storage.lease import LeaseInfo
    d = tempfile.mkdtemp(prefix="pyvc-")
    try:
        p = os.path.join(d, "s")
        ms = MutableShareFile(p)
        ms.create(b"n" * 20, bytes(rng.randrange(256) for _ in range(32)))
        for _ in range(rng.randint(0, 3)):
            ms.writev([(rng.randint(0, 60), bytes(rng.randrange(256) for _ in range(rng.randint(0, 30))))],
                      rng.choice([None, None, rng.randint(0, 50)]))
        for i in range(rng.choice([0, 1, 2, 4, 5, 6, 7])):
            ms.add_lease(10 ** 9, LeaseInfo(i + 1, bytes([i + 1]) * 32, bytes([i + 101]) * 32, 1000 + i, b"N" * 20))
        for _ in range(rng.randint(0, 2)):
            ms.writev([(rng.randint(0, 90), bytes(rng.randrange(256) for _ in range(rng.randint(0, 30))))],
                      rng.choice([None, None, rng.randint(0, 50)]))
        return open(p, "rb").read()
    finally:
        shutil.rmtree(d, ignore_errors=True)


class _MSF(Spec):
    file = F
    method = None
    raises = ()
    cross_check = 30

    @property
    def qualname(self):
        return "MutableShareFile." + self.method

    def msf_class(self):
        return self.module().MutableShareFile

    def mk_self(self, I):
        return SObj(self.msf_class(), {"home": PathTok("home")})

    def call_args(self, a):
        raise NotImplementedError

    def run(self, I, a):
        put_file(I, "home", a["file0"])
        f = FileObj("home", "rb+")
        try:
            v = I.call_value(self.target(I), [self.mk_self(I), f] + self.call_args(a), {})
            out = Outcome("return", v)
        except PyRaise as pr:
            out = Outcome("raise", exc=pr.exc, exc_cls=pr.cls)
        out.post = {"file": file_post(I, "home")}
        return out

    def native(self, a):
        from allmydata.storage.mutable import MutableShareFile
        with TempDir() as d:
            p = os.path.join(d, "share")
            with open(p, "wb") as fh:
                fh.write(a["file0"])
            ms = object.__new__(MutableShareFile)
            ms.home = p
            with open(p, "rb+") as f:
                out = native_outcome(lambda: getattr(MutableShareFile, self.method)(ms, f, *self.call_args(a)))
            out.post = {"file": open(p, "rb").read()}
            return out

    def same_result(self, n, s):
        from pyvc.runner import plain_equal
        return plain_equal(n.value, s.value) and plain_equal(n.post, s.post)


class ReadShareData(_MSF):
    method = "_read_share_data"

    def inputs(self):
        return {"file0": FileK(gen_container), "offset": IntK(0, rnd=lambda r: r.randint(0, 120)),
                "length": IntK(0, rnd=lambda r: r.randint(0, 120))}

    def requires(self, I, a):
        c, n = as_arr(a["file0"])
        return z3.And(WF(c, n), Z(a["offset"]) >= 0, Z(a["length"]) >= 0)

    def call_args(self, a):
        return [a["offset"], a["length"]]

    def ensures(self, I, a, out):
        c, n = as_arr(a["file0"])
        off, ln = Z(a["offset"]), Z(a["length"])
        r, rl = as_arr(out.value)
        end = z3.If(off + ln < dl(c), off + ln, dl(c))
        want = z3.If(end - off > 0, end - off, 0)
        c1, n1 = as_arr(out.post["file"])
        return [("length-clipped-at-data-length", rl == want),
                ("bytes-are-view-slice", forall_range(0, want, lambda k: z3.Select(r, k) == view_at(c, off + k))),
                ("file-unchanged", z3.And(n1 == n, forall_range(0, n, lambda k: z3.Select(c1, k) == z3.Select(c, k))))]

    def canary(self, I, a, out):
        r, rl = as_arr(out.value)
        return [("canary", rl == Z(a["length"]))]


class WriteShareData(_MSF):
    method = "_write_share_data"

    def inputs(self):
        return {"file0": FileK(gen_container), "offset": IntK(0, rnd=lambda r: r.randint(0, 150)),
                "data": BytesArrK(rndmax=60)}

    @property
    def raises(self):
        from allmydata.storage.common import DataTooLargeError
        return (DataTooLargeError,)

    def requires(self, I, a):
        c, n = as_arr(a["file0"])
        return z3.And(WF(c, n), Z(a["offset"]) >= 0)

    def call_args(self, a):
        return [a["offset"], a["data"]]

    def ensures(self, I, a, out):
        c, n = as_arr(a["file0"])
        off = Z(a["offset"])
        d, ln = as_arr(a["data"])
        c1, n1 = as_arr(out.post["file"])
        MAX = self.msf_class().MAX_SIZE
        if out.kind == "raise":
            return [("too-large-only-beyond-MAX_SIZE", off + ln > MAX),
                    ("too-large-leaves-file-unchanged", z3.And(n1 == n, forall_range(0, n, lambda k: z3.Select(c1, k) == z3.Select(c, k))))]
        newdl = z3.If(off + ln > dl(c), off + ln, dl(c))
        spec_byte = lambda i: z3.If(z3.And(i >= off, i < off + ln), z3.Select(d, i - off),
                                    z3.If(i < dl(c), view_at(c, i), z3.IntVal(0)))
        return [("well-formed-after", WF(c1, n1)),
                ("data-length-is-max", dl(c1) == newdl),
                ("view-is-array-write-with-zero-gap", forall_range(0, newdl, lambda i: view_at(c1, i) == spec_byte(i))),
                ("leases-unchanged", leases_same(c, c1)),
                ("enabler-and-nodeid-unchanged", header_same(c, c1)),
                ("fits-in-MAX_SIZE-or-container", z3.Or(off + ln <= MAX, DO + off + ln <= elo(c)))]

    def canary(self, I, a, out):
        c, n = as_arr(a["file0"])
        c1, n1 = as_arr(out.post["file"])
        return [("canary", dl(c1) == dl(c))]


class ChangeContainerSize(_MSF):
    method = "_change_container_size"

    def inputs(self):
        return {"file0": FileK(gen_container), "new_container_size": IntK(0, rnd=lambda r: r.randint(0, 400))}

    @property
    def raises(self):
        from allmydata.storage.common import DataTooLargeError
        return (DataTooLargeError,)

    def requires(self, I, a):
        c, n = as_arr(a["file0"])
        return z3.And(WF(c, n), Z(a["new_container_size"]) >= 0)

    def call_args(self, a):
        return [a["new_container_size"]]

    def ensures(self, I, a, out):
        c, n = as_arr(a["file0"])
        new = Z(a["new_container_size"])
        c1, n1 = as_arr(out.post["file"])
        MAX = self.msf_class().MAX_SIZE
        same = z3.And(n1 == n, forall_range(0, n, lambda k: z3.Select(c1, k) == z3.Select(c, k)))
        if out.kind == "raise":
            return [("too-large-iff", new > MAX), ("too-large-leaves-file-unchanged", same)]
        grown = DO + new >= elo(c)
        return [("well-formed-after", WF(c1, n1)),
                ("container-never-shrinks", elo(c1) == z3.If(grown, DO + new, elo(c))),
                ("data-length-unchanged", dl(c1) == dl(c)),
                ("view-unchanged", forall_range(0, dl(c), lambda i: view_at(c1, i) == view_at(c, i))),
                ("leases-unchanged", leases_same(c, c1)),
                ("enabler-and-nodeid-unchanged", header_same(c, c1)),
                ("old-lease-area-zeroed", forall_range(0, 4 + LS * nx(c), lambda k: z3.Implies(
                    z3.And(grown, elo(c) + k < elo(c1)), z3.Select(c1, elo(c) + k) == 0))),
                ("not-larger-than-MAX_SIZE", new <= MAX)]

    def canary(self, I, a, out):
        c, n = as_arr(a["file0"])
        c1, n1 = as_arr(out.post["file"])
        return [("canary", elo(c1) == elo(c))]


def contracts(tier):
    return [ReadShareData(), WriteShareData(), ChangeContainerSize()]
