"""C44 Helper-assisted uploads are equivalent to direct uploads -- contracts on immutable/upload.py
(RemoteEncryptedUploadable.remote_read_encrypted, AssistedUploader._build_verifycap/_contacted_helper) and
immutable/offloaded.py CHKCiphertextFetcher (_start_reading, _fetch)"""
import z3
from pyvc.harness import Spec, IntK, BoolK, BytesArrK, ChoiceK, Outcome
from pyvc.values import *  # noqa
from pyvc.models_ext2 import PathTok
from contracts.lib import *  # noqa
from contracts import C05

LEVEL = "other"
MANIFEST_ENTRY = {
    "text": "Ciphertext transfer with resume, as an inductive invariant with the ciphertext C a ghost array. Helper side (CHKCiphertextFetcher): Inv = 'the incoming file on disk is exactly C[0:have]'. _start_reading sets have to the size of whatever incoming file exists (0 if none) and opens it for append, so Inv holds after any earlier interruption; one _fetch step asks the client for exactly [have, have+min(remaining, 50 KiB)), appends what arrives in order and advances have by its length, so Inv is preserved for every size and every position; it reports 'finished' exactly when have == expected size, and only then is the file renamed for encoding. Client side (RemoteEncryptedUploadable.remote_read_encrypted): for every stream position and every request at or beyond it, the bytes skipped are read with hash_only (so plaintext hashes and the AES-CTR position still advance: C05 HashAndEncrypt, re-run here) and the `length` bytes returned are the encrypted uploadable's next bytes at exactly the requested offset; requests behind the position are refused. One writer per file: Helper.remote_upload_chk gives requests for the same storage index the same single upload helper, also when the second request arrives while the first one's already-in-grid check is still running, and none when the file is already in the grid. Already-present files: when the helper answers without an upload handle, no ciphertext is sent. Cap construction (AssistedUploader._build_verifycap): the verify cap uses the client's own storage index, k, N and size and the helper's UEB hash, and refuses helper results whose k, N, segment size or size differ from the client's.",
    "note": "That the helper's encoder produces the same UEB hash as a direct upload (same key: C05, same parameters: the asserts above, same encoder: C01) is an argument across contracts, not one obligation. The foolscap transport, Helper.remote_upload_chk's bookkeeping of incoming/encoding directories and CHKCheckerAndUEBFetcher are not under contract.",
    "technique": "contract-based deductive verification (pyvc VCs + z3, file model with ghost ciphertext array, Deferred-chain model)",
}
EXPLANATION = "Resume invariant of the ciphertext fetch; offset discipline of the client reader; cap assembled from the client's own parameters."
TRUSTED = ["foolscap delivers call results unchanged", "os.stat size of the incoming file"]
ASSUMPTIONS = ["the client answers read_encrypted(offset, n) with C[offset:offset+n'] for some n' <= n (RemoteReadEncrypted obligation on the other side)"]
NOT_DECIDED = "Helper.remote_upload_chk / CHKCheckerAndUEBFetcher; equality of the two UEBs end to end."
OF = "allmydata/immutable/offloaded.py"
UP = "allmydata/immutable/upload.py"
C = z3.Array("C", z3.IntSort(), z3.IntSort())
LOG = {"log.msg": lambda I, a, kw: 1, "CHKCiphertextFetcher.log": lambda I, a, kw: 1, "AssistedUploader.log": lambda I, a, kw: 1, "time.time": lambda I, a, kw: 0}


class StartReading(Spec):
    file = OF
    qualname = "CHKCiphertextFetcher._start_reading"
    cross_check = 0
    raises = ()
    canary_case = {"exists": True}

    def inputs(self):
        return {"exists": ChoiceK([False, True]), "file": FileK(None)}

    def all_cases(self):
        return [{"exists": False}, {"exists": True}]

    def config(self):
        me = self
        from pyvc.models_tahoe import DStub
        o = dict(LOG)
        o["CHKCiphertextFetcher._loop"] = lambda I, a, kw: me._loops.append(a[1])
        o["defer.Deferred"] = lambda I, a, kw: DStub("pending")
        o["twisted.internet.defer.Deferred"] = o["defer.Deferred"]
        return {"overrides": o}

    def run(self, I, a):
        self._loops = []
        if a["exists"]:
            put_file(I, "incoming", a["file"])
        helper = stub("helper", count=noop)
        uh = stub("upload_helper", _helper=helper)
        f = SObj(self.module().CHKCiphertextFetcher, {"_incoming_file": PathTok("incoming"), "_upload_helper": uh})
        I.call_value(self.target(I), [f, None], {})
        out = Outcome("return", f)
        out.post = {"file": file_post(I, "incoming")}
        return out

    def ensures(self, I, a, out):
        f = out.value
        c1, n1 = as_arr(out.post["file"])
        g = [("the-fetch-loop-is-started-once", z3.BoolVal(len(self._loops) == 1))]
        if a["exists"]:
            c0, n0 = as_arr(a["file"])
            g += [("resume-position-is-the-size-of-the-partial-file", Z(f.fields["_have"]) == n0), ("the-partial-file-is-kept", same_file(c0, n0, c1, n1))]
        else:
            g += [("a-fresh-fetch-starts-at-zero", Z(f.fields["_have"]) == 0), ("a-fresh-file-is-empty", n1 == 0)]
        fh = f.fields["_f"]
        g.append(("new-bytes-will-go-to-the-end-of-the-file", z3.BoolVal(getattr(fh, "mode", None) == "ab") if getattr(fh, "mode", None) == "ab" else (Z(getattr(fh, "pos", -1)) == n1)))
        return g

    def canary(self, I, a, out):
        return [("canary", Z(out.value.fields["_have"]) == 0)]


class FetchStep(Spec):
    file = OF
    qualname = "CHKCiphertextFetcher._fetch"
    cross_check = 0
    raises = ()

    def inputs(self):
        return {"file": FileK(None), "expected": IntK(0), "n0": IntK(0), "n1": IntK(0), "d0": BytesArrK(), "d1": BytesArrK()}

    def requires(self, I, a):
        c0, have = as_arr(a["file"])
        d0, d1 = as_sbytes(a["d0"]), as_sbytes(a["d1"])
        return z3.And(have <= Z(a["expected"]), forall_range(0, have, lambda i: z3.Select(c0, i) == z3.Select(C, i)),
                      forall_range(0, Z(d0.length), lambda i: d0.at(i) == z3.Select(C, have + i)),
                      forall_range(0, Z(d1.length), lambda i: d1.at(i) == z3.Select(C, have + Z(d0.length) + i)))

    def config(self):
        o = dict(LOG)
        o["builtins.float"] = lambda I, a, kw: Opaque("float")
        o["builtins.int"] = None
        del o["builtins.int"]
        return {"overrides": o}

    def run(self, I, a):
        from pyvc.models_ext2 import FileObj
        from pyvc.models_tahoe import DStub
        self._calls = []
        c0, have = as_arr(a["file"])
        put_file(I, "incoming", a["file"])
        fobj = FileObj("incoming", "ab")
        fobj.pos = have
        helper = stub("helper", count=noop)
        st = stub("status", set_progress=noop)
        uh = stub("upload_helper", _helper=helper, _upload_status=st)
        d = DStub("pending")
        f = SObj(self.module().CHKCiphertextFetcher, {"_incoming_file": PathTok("incoming"), "_upload_helper": uh, "_expected_size": a["expected"], "_have": have, "_f": fobj,
                                                     "_ciphertext_fetched": 0, "_upload_id": "abcde"})
        f.fields["call"] = stub("x", f=lambda I_, a_, k_: (self._calls.append(tuple(a_)), d)[1]).fields["f"]
        r = I.call_value(self.target(I), [f], {})
        res = None
        if self._calls:
            res, _ = fire_chain(I, d, [a["d0"], a["d1"]])
        out = Outcome("return", (r, res))
        out.post = {"f": f, "file": file_post(I, "incoming"), "have0": have}
        return out

    def ensures(self, I, a, out):
        r, res = out.value
        f = out.post["f"]
        have0, exp = out.post["have0"], Z(a["expected"])
        c1, n1 = as_arr(out.post["file"])
        if not self._calls:
            return [("finished-is-reported-only-when-everything-is-on-disk", z3.And(z3.BoolVal(r is True), have0 == exp)),
                    ("nothing-is-written-when-finished", n1 == have0)]
        call = self._calls[0]
        need = exp - have0
        want_n = z3.If(need < 50 * 1024, need, 50 * 1024)
        d0, d1 = as_sbytes(a["d0"]), as_sbytes(a["d1"])
        newhave = have0 + Z(d0.length) + Z(d1.length)
        return [("a-chunk-is-requested-only-while-bytes-are-missing", have0 < exp),
                ("the-request-starts-at-the-resume-position-and-is-at-most-one-chunk", z3.And(z3.BoolVal(call[0] == "read_encrypted"), Z(call[1]) == have0, Z(call[2]) == want_n)),
                ("position-advances-by-what-arrived", Z(f.fields["_have"]) == newhave),
                ("the-file-is-still-exactly-the-ciphertext-prefix", z3.And(n1 == newhave, forall_range(0, newhave, lambda i: z3.Select(c1, i) == z3.Select(C, i)))),
                ("a-step-that-fetched-data-does-not-claim-to-be-finished", z3.BoolVal(res is False))]

    def canary(self, I, a, out):
        return [("canary", z3.BoolVal(not self._calls))]


class RemoteReadEncrypted(Spec):
    file = UP
    qualname = "RemoteEncryptedUploadable.remote_read_encrypted"
    cross_check = 0
    raises = (AssertionError,)

    def inputs(self):
        return {"pos": IntK(0), "offset": IntK(0), "length": IntK(0), "short": IntK(0)}

    def requires(self, I, a):
        return Z(a["short"]) <= Z(a["length"])

    def config(self):
        return {"overrides": dict(LOG)}

    def run(self, I, a):
        from pyvc.models_tahoe import DStub
        self._reads = []
        self._eu_pos = a["pos"]

        def read_encrypted(I_, a_, k_):
            n, hash_only = a_[0], a_[1]
            start = self._eu_pos
            got = n if hash_only else a["short"]          # a read may return fewer bytes than asked at end of file
            self._reads.append((start, n, hash_only))
            self._eu_pos = norm_int(Z(start) + Z(got))
            return DStub("succeeded", [] if hash_only else [SBytes(C, got, start)])
        eu = stub("eu", read_encrypted=read_encrypted)
        r = SObj(self.module().RemoteEncryptedUploadable, {"_eu": eu, "_offset": a["pos"], "_bytes_sent": 0})
        try:
            d = I.call_value(self.target(I), [r, a["offset"], a["length"]], {})
        except PyRaise as pr:
            out = Outcome("raise", exc=pr.exc, exc_cls=pr.cls)
            out.post = {"r": r}
            return out
        from pyvc.models_tahoe import DStub as _D
        res = d
        if isinstance(d, _D):
            if d.state == "succeeded":
                res, _ = fire_chain(I, d, d.value)
            elif d.state == "pending":
                res = None
        out = Outcome("return", res)
        out.post = {"r": r}
        return out

    def ensures(self, I, a, out):
        pos, off, ln = Z(a["pos"]), Z(a["offset"]), Z(a["length"])
        if out.kind == "raise":
            return [("only-requests-behind-the-stream-position-are-refused", off < pos), ("a-refused-request-reads-nothing", z3.BoolVal(not self._reads))]
        r = out.post["r"]
        reads = self._reads
        real = [x for x in reads if not x[2]]
        skips = [x for x in reads if x[2]]
        g = [("requests-at-or-beyond-the-position-are-served", off >= pos),
             ("exactly-one-real-read-of-the-requested-length", z3.And(z3.BoolVal(len(real) == 1), Z(real[0][1]) == ln) if len(real) == 1 else z3.BoolVal(False))]
        if len(real) == 1:
            g.append(("the-returned-bytes-start-exactly-at-the-requested-offset", Z(real[0][0]) == off))
        g.append(("skipped-bytes-are-still-read-for-hashing-and-cipher-position", (z3.And(z3.BoolVal(len(skips) == 1), Z(skips[0][0]) == pos, Z(skips[0][1]) == off - pos) if skips else (off == pos))))
        g.append(("the-position-ends-after-the-bytes-returned", Z(r.fields["_offset"]) == off + Z(a["short"])))
        if isinstance(out.value, list) and len(out.value) == 1:
            g.append(("the-result-is-the-uploadables-data-unchanged", z3.BoolVal(isinstance(out.value[0], SBytes))))
        return g

    def canary(self, I, a, out):
        return [("canary", z3.BoolVal(not self._reads))] if out.kind == "return" else []


class ContactedHelper(Spec):
    file = UP
    qualname = "AssistedUploader._contacted_helper"
    cross_check = 0
    raises = ()

    def inputs(self):
        return {"need_upload": ChoiceK([False, True])}

    def all_cases(self):
        return [{"need_upload": False}, {"need_upload": True}]

    def config(self):
        me = self
        from pyvc.models_tahoe import DStub
        o = dict(LOG)
        o["upload.RemoteEncryptedUploadable"] = lambda I, a, kw: stub("reu", get_size=lambda I_, a_, k_: DStub("succeeded", 10), wraps=a[0])
        return {"overrides": o}

    def run(self, I, a):
        self._remote = []
        st = stub("status", set_status=noop, set_progress=noop)
        uh = stub("upload_helper", callRemote=lambda I_, a_, k_: (self._remote.append(tuple(a_)), "upload-deferred")[1]) if a["need_upload"] else None
        up = SObj(self.module().AssistedUploader, {"_time_contacting_helper_start": 0, "_upload_status": st, "_encuploadable": "EU", "_log_number": 1})
        res = I.call_value(self.target(I), [up, ("HELPER-RESULTS", uh)], {})
        from pyvc.models_tahoe import DStub
        if isinstance(res, DStub) and res.state == "succeeded":
            res, _ = fire_chain(I, res, res.value)
        return res

    def ensures(self, I, a, out):
        if not a["need_upload"]:
            return [("an-already-present-file-is-reported-without-sending-ciphertext", z3.BoolVal(out.value == "HELPER-RESULTS" and not self._remote))]
        ok = len(self._remote) == 1 and self._remote[0][0] == "upload" and isinstance(self._remote[0][1], SObj) and self._remote[0][1].fields.get("wraps") == "EU"
        return [("otherwise-the-helper-is-given-a-reader-over-this-uploads-ciphertext", z3.BoolVal(ok))]

    def canary(self, I, a, out):
        return [("canary", z3.BoolVal(not self._remote))] if a["need_upload"] else []
    canary_case = {"need_upload": True}


class BuildVerifycap(Spec):
    file = UP
    qualname = "AssistedUploader._build_verifycap"
    cross_check = 0
    raises = (AssertionError,)

    def inputs(self):
        return {"k": IntK(1, 256), "n": IntK(1, 256), "seg": IntK(1), "size": IntK(0), "hk": IntK(1, 256), "hn": IntK(1, 256), "hseg": IntK(1), "hsize": IntK(0)}

    def config(self):
        me = self
        o = dict(LOG)
        o["uri.CHKFileVerifierURI"] = lambda I, a, kw: (me._caps.append((tuple(a), dict(kw))), stub("verifycap", to_string=lambda I_, a_, k_: b"URI:CHK-Verifier:x"))[1]
        o["upload.UploadResults"] = lambda I, a, kw: stub("results")
        return {"overrides": o}

    def run(self, I, a):
        self._caps = []
        hur = stub("helper_results", uri_extension_data={"needed_shares": a["hk"], "total_shares": a["hn"], "segment_size": a["hseg"], "size": a["hsize"]},
                   uri_extension_hash=b"H" * 32, timings={}, sharemap={}, servermap={}, file_size=a["hsize"], ciphertext_fetched=0, preexisting_shares=0, pushed_shares=0)
        hur.fields["sharemap"] = {}
        st = stub("status", set_status=noop, set_results=noop)
        sb = stub("broker", get_stub_server=lambda I_, a_, k_: "srv")
        up = SObj(self.module().AssistedUploader, {"_upload_status": st, "_needed_shares": a["k"], "_total_shares": a["n"], "_segment_size": a["seg"], "_size": a["size"],
                                                  "_storage_index": b"SI" * 8, "_storage_index_elapsed": 0, "_elapsed_time_contacting_helper": 0, "_started": 0, "_storage_broker": sb, "_log_number": 1})
        try:
            return Outcome("return", I.call_value(self.target(I), [up, hur], {}))
        except PyRaise as pr:
            return Outcome("raise", exc=pr.exc, exc_cls=pr.cls)

    def ensures(self, I, a, out):
        same = z3.And(Z(a["k"]) == Z(a["hk"]), Z(a["n"]) == Z(a["hn"]), Z(a["seg"]) == Z(a["hseg"]), Z(a["size"]) == Z(a["hsize"]))
        if out.kind == "raise":
            return [("helper-results-are-refused-only-when-they-disagree-with-the-clients-parameters", z3.Not(same))]
        g = [("results-for-other-parameters-are-never-turned-into-a-cap", same), ("one-cap-is-built", z3.BoolVal(len(self._caps) == 1))]
        if len(self._caps) == 1:
            args, kw = self._caps[0]
            g.append(("the-cap-uses-the-clients-storage-index-k-N-size-and-the-helpers-UEB-hash",
                      z3.And(z3.BoolVal(args[:1] == (b"SI" * 8,) and kw.get("uri_extension_hash") == b"H" * 32), Z(kw.get("needed_shares")) == Z(a["k"]), Z(kw.get("total_shares")) == Z(a["n"]), Z(kw.get("size")) == Z(a["size"]))))
        return g

    def canary(self, I, a, out):
        return [("canary", z3.BoolVal(not self._caps))] if out.kind == "return" else []


class OneUploadHelperPerFile(Spec):
    """Helper.remote_upload_chk: requests for the same storage index share ONE upload helper (one writer of the incoming
    ciphertext file), also when the second request arrives while the first one's already-in-grid check is still running"""
    file = OF
    qualname = "Helper.remote_upload_chk"
    cross_check = 0
    raises = ()
    canary_case = {"present": False, "order": "overlap"}

    def inputs(self):
        return {"present": ChoiceK([False, True]), "order": ChoiceK(["overlap", "sequential"])}

    def all_cases(self):
        return [{"present": p, "order": o} for p in (False, True) for o in ("overlap", "sequential")]

    def config(self):
        me = self
        from pyvc.models_tahoe import DStub
        o = dict(LOG)
        o.update({"Helper.log": lambda I, a, kw: 1, "Helper.count": noop, "offloaded.si_b2a": lambda I, a, kw: b"abcdefgh", "uri.si_b2a": lambda I, a, kw: b"abcdefgh", "server.si_b2a": lambda I, a, kw: b"abcdefgh",
                  "Helper._check_chk": lambda I, a, kw: (me._checks.append(DStub("pending")), me._checks[-1])[1],
                  "Helper._make_chk_upload_helper": lambda I, a, kw: (me._made.append(stub("upload-helper-%d" % len(me._made))), me._made[-1])[1],
                  "Helper._add_upload": noop})
        return {"overrides": o}

    def run(self, I, a):
        self._checks, self._made = [], []
        h = SObj(self.module().Helper, {"_active_uploads": {}})
        si = b"S" * 16
        found = "HELPER-UPLOAD-RESULTS" if a["present"] else None
        r1 = I.call_value(self.target(I), [h, si], {})
        if a["order"] == "sequential":
            res1, _ = fire_chain(I, self._checks[0], found)
            r2 = I.call_value(self.target(I), [h, si], {})
            res2 = r2
            if len(self._checks) == 2:
                res2, _ = fire_chain(I, self._checks[1], found)
        else:
            r2 = I.call_value(self.target(I), [h, si], {})
            res1, _ = fire_chain(I, self._checks[0], found)
            res2 = r2
            if len(self._checks) == 2:
                res2, _ = fire_chain(I, self._checks[1], found)
        return (res1, res2)

    def ensures(self, I, a, out):
        res1, res2 = out.value
        if a["present"]:
            return [("a-file-already-in-the-grid-is-reported-without-an-upload-helper", z3.BoolVal(res1 == ("HELPER-UPLOAD-RESULTS", None) and res2 == ("HELPER-UPLOAD-RESULTS", None) and not self._made))]
        ok = isinstance(res1, tuple) and isinstance(res2, tuple) and res1[0] is None and res2[0] is None
        return [("both-requests-are-told-to-upload", z3.BoolVal(ok)),
                ("both-requests-get-the-same-single-upload-helper", z3.BoolVal(ok and res1[1] is res2[1] and len(self._made) == 1))]

    def canary(self, I, a, out):
        return [("canary", z3.BoolVal(len(self._made) == 0))] if not a["present"] else []


def contracts(tier):
    return [StartReading(), FetchStep(), RemoteReadEncrypted(), ContactedHelper(), BuildVerifycap(), OneUploadHelperPerFile(), C05.HashAndEncrypt()]
