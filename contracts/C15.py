"""C15 Capability strings round-trip and parse canonically -- contracts on uri.py init_from_string / to_string / from_string"""
import z3
from pyvc.harness import Spec, Lemma, IntK, StrK, ChoiceK, Outcome
from pyvc.values import *  # noqa
from pyvc import regex as R
from contracts.lib import *  # noqa

LEVEL = "proof"
MANIFEST_ENTRY = {
    "text": "For every cap class, the real init_from_string and to_string are executed symbolically on an arbitrary byte string / arbitrary field values: parse(print(u)) has the same fields (all keys, hashes and non-negative integers), print(parse(s)) == s for every accepted s (MDMF: up to the explicitly allowed ':'-extension), and uri.from_string dispatches each accepted string to the class whose prefix it carries or returns UnknownURI carrying the original string. Unbounded in the string and in the integers.",
    "note": "The real compiled STRING_RE patterns are translated to z3 regular expressions every run (Python '$' is modelled as 'end or before a final newline'). base32.b2a/a2b are a trusted model: an uninterpreted bijection between n-byte strings and MY OWN definition of canonical base32 (alphabet, length ceil(8n/5), unused low bits of the last character zero), so a repository regex that is wider than canonical base32 fails the round trip. Decimal bijection str(int(s)) == s for canonical numerals is an assumed arithmetic fact. Known finding: every '$'-anchored pattern accepts one trailing newline.",
}
EXPLANATION = "Symbolic execution of the real parsers/printers over z3 strings and regular expressions."
TRUSTED = ["stdlib base32 is a bijection onto canonical base32 (model of base32.b2a/a2b)", "decimal bijection for canonical numerals",
           "python re semantics as translated by pyvc/regex.py (greedy repetition, '$')"]
ASSUMPTIONS = ["termination not proved"]
NOT_DECIDED = "human-readable abbreviations, is_uri/has_uri_prefix helpers."
F = "allmydata/uri.py"

ALPHA = "abcdefghijklmnopqrstuvwxyz234567"


def A(unused_bits=0):
    cs = [c for i, c in enumerate(ALPHA) if i % (1 << unused_bits) == 0]
    return R.union([R.lit_re(c) for c in cs])


def canon_fixed(nbytes):
    L = (8 * nbytes + 4) // 5
    u = 5 * L - 8 * nbytes
    return z3.Concat(z3.Loop(A(), L - 1, L - 1), A(u)) if L > 1 else A(u)


CANON_ANY = z3.Concat(z3.Star(z3.Loop(A(), 8, 8)),
                      R.union([R.empty_re(), z3.Concat(A(), A(2)), z3.Concat(z3.Loop(A(), 3, 3), A(4)),
                               z3.Concat(z3.Loop(A(), 4, 4), A(1)), z3.Concat(z3.Loop(A(), 6, 6), A(3))]))
B2A = z3.Function("base32_b2a", z3.StringSort(), z3.StringSort())
A2B = z3.Function("base32_a2b", z3.StringSort(), z3.StringSort())


def m_b2a(I, a, kw):
    x = as_sstr(a[0])
    if isinstance(a[0], bytes):
        from allmydata.util import base32
        return base32.b2a(a[0])
    r = B2A(x.term)
    n = x.known_len
    I.path.fact(z3.And(z3.InRe(r, canon_fixed(n) if n is not None else CANON_ANY), A2B(r) == x.term,
                       z3.Length(r) == (8 * z3.Length(x.term) + 4) / 5), "base32 model: b2a is injective onto canonical base32")
    return SStr(r, True, ((8 * n + 4) // 5) if n is not None else None)


def m_a2b(I, a, kw):
    y = as_sstr(a[0])
    if isinstance(a[0], bytes):
        from allmydata.util import base32
        return base32.a2b(a[0])
    r = A2B(y.term)
    I.path.fact(z3.And(z3.InRe(B2A(r), CANON_ANY),
                       z3.Implies(z3.InRe(y.term, CANON_ANY), z3.And(B2A(r) == y.term, z3.Length(r) == (5 * z3.Length(y.term)) / 8))),
                "base32 model: a2b inverts b2a on canonical base32; b2a output is always canonical")
    return SStr(r, True)


CFG = {"overrides": {"base32.b2a": m_b2a, "base32.a2b": m_a2b}}


def T(v):
    return as_sstr(v).term


FILE_KINDS = {
    # class: (field kinds in constructor order, mdmf?)
    "CHKFileURI": (("k16", "h32", "int", "int", "int"), False),
    "CHKFileVerifierURI": (("k16", "h32", "int", "int", "int"), False),
    "LiteralFileURI": (("any",), False),
    "WriteableSSKFileURI": (("k16", "h32"), False),
    "ReadonlySSKFileURI": (("k16", "h32"), False),
    "SSKVerifierURI": (("k16", "h32"), False),
    "WriteableMDMFFileURI": (("k16", "h32"), True),
    "ReadonlyMDMFFileURI": (("k16", "h32"), True),
    "MDMFVerifierURI": (("k16", "h32"), True),
}
DIR_KINDS = {
    "DirectoryURI": "WriteableSSKFileURI", "ReadonlyDirectoryURI": "ReadonlySSKFileURI", "DirectoryURIVerifier": "SSKVerifierURI",
    "ImmutableDirectoryURI": "CHKFileURI", "ImmutableDirectoryURIVerifier": "CHKFileVerifierURI", "LiteralDirectoryURI": "LiteralFileURI",
    "MDMFDirectoryURI": "WriteableMDMFFileURI", "ReadonlyMDMFDirectoryURI": "ReadonlyMDMFFileURI", "MDMFDirectoryURIVerifier": "MDMFVerifierURI",
}
FIELD_NAMES = {
    "CHKFileURI": ("key", "uri_extension_hash", "needed_shares", "total_shares", "size"),
    "CHKFileVerifierURI": ("storage_index", "uri_extension_hash", "needed_shares", "total_shares", "size"),
    "LiteralFileURI": ("data",),
    "WriteableSSKFileURI": ("writekey", "fingerprint"), "ReadonlySSKFileURI": ("readkey", "fingerprint"),
    "SSKVerifierURI": ("storage_index", "fingerprint"),
    "WriteableMDMFFileURI": ("writekey", "fingerprint"), "ReadonlyMDMFFileURI": ("readkey", "fingerprint"),
    "MDMFVerifierURI": ("storage_index", "fingerprint"),
}


def native_cap_string(rng, cls):
    """a real cap string of the kind, from random fields"""
    import allmydata.uri as U
    inner = DIR_KINDS.get(cls, cls)
    kinds, _ = FILE_KINDS[inner]
    args = []
    for k in kinds:
        if k == "k16":
            args.append(bytes(rng.randrange(256) for _ in range(16)))
        elif k == "h32":
            args.append(bytes(rng.randrange(256) for _ in range(32)))
        elif k == "int":
            args.append(rng.choice([0, 1, 3, 10, 255, rng.randrange(10 ** 12)]))
        else:
            args.append(bytes(rng.randrange(256) for _ in range(rng.randint(0, 12))))
    u = getattr(U, inner)(*args)
    if cls in DIR_KINDS:
        u = getattr(U, cls)(u)
    return u.to_string()


def mutate(rng, s):
    r = rng.random()
    if r < 0.5:
        return s
    i = rng.randrange(len(s) + 1)
    c = bytes([rng.choice(b"aq7:0URI\n 1")])
    if r < 0.7:
        return s[:i] + c + s[i:]
    if r < 0.85:
        return s + c
    return s[:i] + s[i + 1:]


class CapGrammar(Lemma):
    """Regular-language obligations on the real compiled STRING_RE of one cap class (translated to z3 regex):
    accepted strings are exactly the canonical printed forms (anchoring, canonical base32 groups, canonical
    decimals), up to the ':'-extension that MDMF allows."""

    def __init__(self, cls):
        self.cls_name = cls

    @property
    def name(self):
        return "CapGrammar[%s]" % self.cls_name

    def pattern(self):
        import allmydata.uri as U
        return getattr(U, self.cls_name).STRING_RE

    def printed_language(self):
        """built from the literals of the real pattern and MY canonical languages for each field kind"""
        P = self.pattern()
        tr, start, parts, end = R.top_level_parts(P.pattern, P.flags)
        kinds = list(FILE_KINDS[self.cls_name][0])
        rs = []
        for p in parts:
            if p[0] == "lit":
                rs.append(R.lit_re(p[1]))
            elif p[0] == "group":
                k = kinds.pop(0)
                rs.append({"k16": canon_fixed(16), "h32": canon_fixed(32), "any": CANON_ANY,
                           "int": R.union([R.lit_re("0"), z3.Concat(z3.Range("1", "9"), z3.Star(z3.Range("0", "9")))])}[k])
            else:
                raise RuntimeError("unexpected non-group variable part in a cap pattern")
        if kinds:
            raise RuntimeError("pattern has fewer groups than the class has fields")
        return R.concat(rs)

    def obligations(self):
        P = self.pattern()
        Ls, tr = R.search_language(P.pattern, P.flags)
        printed = self.printed_language()
        allowed = printed
        if FILE_KINDS[self.cls_name][1]:
            allowed = z3.Concat(printed, z3.Option(z3.Concat(R.lit_re(":"), R.sigma_star(True))))
        x = z3.String("s")
        syms = {"s": (StrK(True), SStr(x, True))}
        NL = z3.Concat(R.sigma_star(True), R.lit_re("\n"))
        F_ = z3.BoolVal(False)
        # each obligation is emptiness of ONE regular expression (derivative-based solving is fast on these)
        return [("accepted-strings-are-canonical-printed-forms", [z3.InRe(x, z3.Intersect(Ls, z3.Complement(NL), z3.Complement(allowed)))], F_, syms),
                ("no-accepted-string-ends-with-a-newline", [z3.InRe(x, z3.Intersect(Ls, NL))], F_, syms),
                ("every-printed-form-is-accepted", [z3.InRe(x, z3.Intersect(printed, z3.Complement(Ls)))], F_, syms)]

    def native_refute(self, obligation, mv):
        import allmydata.uri as U
        s = mv["s"]
        cls = getattr(U, self.cls_name)
        try:
            t = cls.init_from_string(s).to_string()
        except Exception as e:
            return (obligation == "every-printed-form-is-accepted"), "init_from_string(%r) raised %r" % (s, e)
        if obligation == "every-printed-form-is-accepted":
            return False, "accepted"
        ok = (t == s) or (FILE_KINDS[self.cls_name][1] and s.startswith(t + b":"))
        return (not ok), "init_from_string(%r).to_string() == %r" % (s, t)


class CapDataFlow(Spec):
    """init_from_string passes group i (decoded) to field i and to_string prints field i (re-encoded) at position i
    between the same literals as the pattern: print(parse(s)) is the pattern's literals interleaved with the
    canonical re-encoding of each captured group.  The regex is abstract here (groups unconstrained)."""
    file = F
    cross_check = 0

    def __init__(self, cls):
        self.cls_name = cls

    @property
    def name(self):
        return "CapDataFlow[%s]" % self.cls_name

    @property
    def qualname(self):
        return self.cls_name + ".init_from_string"

    @property
    def raises(self):
        from allmydata.uri import BadURIError
        return (BadURIError,)

    def inputs(self):
        return {"s": StrK(True)}

    def config(self):
        c = dict(CFG)
        c["regex_abstract"] = True
        return c

    def run(self, I, a):
        cls = getattr(self.module(), self.cls_name)
        u = I.call_value(I.get_attr(cls, "init_from_string"), [a["s"]], {})
        t = I.call_value(I.get_attr(u, "to_string"), [], {})
        out = Outcome("return", t)
        out.post = {"fields": [u.fields.get(n) for n in FIELD_NAMES[self.cls_name]], "cls": u.cls.__name__}
        return out

    def ensures(self, I, a, out):
        if out.kind == "raise":
            return []
        import allmydata.uri as U
        P = getattr(U, self.cls_name).STRING_RE
        tr, start, parts, end = R.top_level_parts(P.pattern, P.flags)
        kinds = list(FILE_KINDS[self.cls_name][0])
        pieces, fields = [], []
        for p in parts:
            if p[0] == "lit":
                pieces.append(z3.StringVal(p[1]))
            else:
                k = kinds.pop(0)
                g = z3.String("G%d" % p[1])
                if k == "int":
                    pieces.append(z3.IntToStr(z3.StrToInt(g)))
                    fields.append(("int", z3.StrToInt(g)))
                else:
                    pieces.append(B2A(A2B(g)))
                    fields.append(("bytes", A2B(g)))
        want = z3.Concat(*pieces)
        g = [("same-kind", z3.BoolVal(out.post["cls"] == self.cls_name)),
             ("print-of-parse-is-literals-and-reencoded-groups-in-order", T(out.value) == want)]
        for i, ((k, v), f) in enumerate(zip(fields, out.post["fields"])):
            g.append(("field-%d-is-decoded-group-%d" % (i, i + 1), (Z(f) == v) if k == "int" else (T(f) == v)))
        return g

    def requires(self, I, a):
        # number groups reach int() only as plain digit strings (what the pattern guarantees, see CapGrammar)
        if I is None:
            return True
        cs = [z3.BoolVal(True)]
        for i, k in enumerate(FILE_KINDS[self.cls_name][0]):
            g = z3.String("G%d" % (i + 1))
            if k == "int":
                cs.append(z3.InRe(g, z3.Plus(z3.Range("0", "9"))))
            elif k in ("k16", "h32"):
                # canonical 26/52-character groups decode to 16/32 bytes (base32 model + CapGrammar)
                cs.append(z3.Length(A2B(g)) == (16 if k == "k16" else 32))
        return z3.And(cs)

    def canary(self, I, a, out):
        return [("canary", T(out.post["fields"][0]) == z3.StringVal("x"))]


class DirWrapper(Spec):
    """_DirectoryBaseURI.init_from_string / to_string swap the directory prefix for the inner file-cap prefix and back:
    with the inner class round-tripping (CapGrammar + CapDataFlow), print(parse(s)) == s for every accepted s."""
    file = F
    qualname = "_DirectoryBaseURI.init_from_string"
    cross_check = 0

    def __init__(self, cls):
        self.cls_name = cls

    @property
    def name(self):
        return "DirWrapper[%s]" % self.cls_name

    @property
    def raises(self):
        from allmydata.uri import BadURIError
        return (BadURIError,)

    def inputs(self):
        return {"s": StrK(True, maxlen=None)}

    def config(self):
        me = self
        inner = DIR_KINDS[self.cls_name]

        def inner_parse(I, args, kw):
            # inner class contract: a parsed inner cap prints back the string it was parsed from (or is rejected)
            x = args[-1]
            me._inner_arg = x
            if I.path.choose(2) == 1:
                from allmydata.uri import BadURIError
                raise PyRaise(SObj(BadURIError, {"args": ()}))
            from pyvc.interp import ModelFn
            import allmydata.uri as U
            return SObj(getattr(U, inner), {"to_string": ModelFn("inner.to_string", lambda I_, a_, k_: x)})
        return {"overrides": {"%s.init_from_string" % inner: inner_parse}}

    def run(self, I, a):
        cls = getattr(self.module(), self.cls_name)
        u = I.call_value(I.get_attr(cls, "init_from_string"), [a["s"]], {})
        t = I.call_value(I.get_attr(u, "to_string"), [], {})
        out = Outcome("return", t)
        out.post = {"inner_arg": self._inner_arg}
        return out

    def ensures(self, I, a, out):
        if out.kind == "raise":
            return []
        import allmydata.uri as U
        cls = getattr(U, self.cls_name)
        base, ibase = zstr(cls.BASE_STRING), zstr(cls.INNER_URI_CLASS.BASE_STRING)
        s = T(a["s"])
        rest = z3.SubString(s, z3.Length(base), z3.Length(s) - z3.Length(base))
        return [("accepted-only-with-the-directory-prefix", z3.PrefixOf(base, s)),
                ("inner-parser-sees-inner-prefix-plus-the-rest", T(out.post["inner_arg"]) == z3.Concat(ibase, rest)),
                ("accepted-string-reserialises-to-itself", T(out.value) == s)]

    def canary(self, I, a, out):
        return [("canary", z3.Length(T(out.value)) < 3)]


class DirBasePatterns(Lemma):
    """structural: each directory class's BASE_STRING_RE is exactly '^' + its BASE_STRING, and BASE_STRINGs of all cap
    classes end in ':' so that none is a prefix of another (dispatch by startswith cannot shadow)."""
    name = "DirBasePatterns"

    def obligations(self):
        import allmydata.uri as U
        x = z3.String("s")
        obs = []
        for k in DIR_KINDS:
            cls = getattr(U, k)
            L, tr = R.search_language(cls.BASE_STRING_RE.pattern, cls.BASE_STRING_RE.flags)
            want = z3.Concat(R.lit_re("".join(chr(c) for c in cls.BASE_STRING)), R.sigma_star(True))
            obs.append(("%s-base-pattern-is-its-prefix" % k, [], z3.InRe(x, L) == z3.InRe(x, want)))
        bases = sorted(set(getattr(U, k).BASE_STRING for k in list(DIR_KINDS) + list(FILE_KINDS)))
        ok = all(b.endswith(b":") and b.count(b":") == 2 for b in bases) and len(bases) == len(DIR_KINDS) + len(FILE_KINDS)
        obs.append(("prefixes-are-distinct-and-colon-terminated", [], z3.BoolVal(ok)))
        return obs


def contracts(tier):
    cs = []
    for k in FILE_KINDS:
        cs.append(CapGrammar(k))
        cs.append(CapDataFlow(k))
    for k in DIR_KINDS:
        cs.append(DirWrapper(k))
    cs.append(DirBasePatterns())
    # "an unrecognised or constraint-violating string is never read as a different, usable cap": the dispatch in uri.from_string
    # (prefixes ro./imm., deep-immutable context) is under contract in C16 and re-run here
    from contracts import C16
    cs += [c for c in C16.contracts(tier) if type(c).__name__ == "FromString"]
    return cs
