"""C38 On-disk and wire encodings round-trip -- contracts on storage/lease.py, storage/*_schema.py, util/netstring.py,
uri.py pack_extension/unpack_extension, util/base32.py, util/base62.py"""
import ast
import z3
from pyvc.harness import Spec, Lemma, IntK, BytesArrK, StrK, ChoiceK, Outcome
from pyvc.values import *  # noqa
from contracts.lib import *  # noqa

LEVEL = "other"
MANIFEST_ENTRY = {
    "text": "Lease records: for every owner number, pair of 32-byte secrets, node id and expiration time, from_immutable_data(to_immutable_data(l)) and from_mutable_data(to_mutable_data(l)) give back exactly the fields, values outside the 4-byte fields raise struct.error instead of being stored as something else, every 72/92-byte record re-encodes to the same bytes and any other length is refused (proved, struct big-endian codec trusted). Share headers: the immutable header decodes to (version, min(2**32-1, max_size), 0) and the mutable header to the magic of its schema, the node id, the write enabler, data length 0 and extra-lease offset 468, for both schema versions (proved). Netstrings: split_netstring(netstring(s1)+..+netstring(sn), n) returns [s1..sn] and the end position, and on ANY input of one element a normal return means the input really was '<digits>:<exactly that many bytes>,' -- negative, truncated and unterminated encodings are refused (proved over z3 strings, n bounded). URI extension blocks: unpack_extension(pack_extension(d)) == d for the field shapes the encoder emits (bounded number of fields). base32: the acceptance table of could_be_base32_encoded equals its specification on the whole finite domain (8 length classes x 256 last bytes), and b2a/a2b round-trip for every length 0..64 (bounded); base62 round-trips for every length 0..40 (bounded).",
    "note": "base64.b32encode/b32decode and struct are trusted library functions. int() leniencies ('+5', ' 5', '1_0') in netstring length prefixes are outside the digit-string shapes and not claimed as malformed.",
    "technique": "contract-based deductive verification (pyvc VCs + z3, uninterpreted big-endian codec, z3 strings); base32/base62 and UEB field counts by bounded exhaustive run-time contracts",
}
EXPLANATION = "encode/decode pairs as inverse contracts on the real functions."
TRUSTED = ["struct big-endian codec (pack/unpack inverse on in-range values)", "base64.b32encode/b32decode (stdlib)", "decimal bijection str(int(s)) == s on canonical numerals"]
ASSUMPTIONS = []
NOT_DECIDED = "int() leniencies in netstring length prefixes; base32/base62 beyond the stated lengths."
LEASE = "allmydata/storage/lease.py"


def lease_obj(a, nodeid):
    import allmydata.storage.lease as L
    return SObj(L.LeaseInfo, {"owner_num": a["owner"], "renew_secret": a["renew"], "cancel_secret": a["cancel"], "_expiration_time": a["t"], "nodeid": nodeid})


def field(o, name):
    return o.fields[name] if isinstance(o, SObj) else getattr(o, name)


def bytes_same(x, y):
    if x is None or y is None:
        return z3.BoolVal(x is None and y is None)
    return sb_eq(as_sbytes(x), as_sbytes(y))


class _LeaseRT(Spec):
    file = LEASE
    cross_check = 40
    mutable = False

    @property
    def raises(self):
        import struct
        return (struct.error,)

    def inputs(self):
        d = {"owner": IntK(rnd=lambda r: r.choice([0, 1, 2 ** 32 - 1, 2 ** 32, -1, r.randrange(2 ** 32)])),
             "renew": BytesArrK(fixed=32), "cancel": BytesArrK(fixed=32),
             "t": IntK(rnd=lambda r: r.choice([0, 2 ** 31 - 1, 2 ** 31, 2 ** 32 - 1, 2 ** 32, -1, r.randrange(2 ** 32)]))}
        if self.mutable:
            d["nodeid"] = BytesArrK(fixed=20)
        return d

    def run(self, I, a):
        L = self.module()
        li = lease_obj(a, a.get("nodeid"))
        enc = "to_mutable_data" if self.mutable else "to_immutable_data"
        dec = "from_mutable_data" if self.mutable else "from_immutable_data"
        try:
            data = I.call_value(I.get_attr(li, enc), [], {})
            li2 = I.call_value(I.get_attr(L.LeaseInfo, dec), [data], {})
            out = Outcome("return", li2)
            out.post = {"data": data}
        except PyRaise as pr:
            out = Outcome("raise", exc=pr.exc, exc_cls=pr.cls)
        return out

    def native(self, a):
        from allmydata.storage.lease import LeaseInfo
        li = LeaseInfo(a["owner"], a["renew"], a["cancel"], a["t"], a.get("nodeid"))

        def f():
            d = (li.to_mutable_data if self.mutable else li.to_immutable_data)()
            r = (LeaseInfo.from_mutable_data if self.mutable else LeaseInfo.from_immutable_data)(d)
            return r, d
        out = native_outcome(f)
        if out.kind == "return":
            out.value, d = out.value
            out.post = {"data": d}
        return out

    def same_result(self, n, s):
        from pyvc.runner import plainify
        return all(plainify(field(n.value, f)) == plainify(field(s.value, f)) for f in ("owner_num", "renew_secret", "cancel_secret", "_expiration_time", "nodeid"))

    def ensures(self, I, a, out):
        o, t = Z(a["owner"]), Z(a["t"])
        inrange = z3.And(o >= 0, o < 2 ** 32, t >= 0, t < 2 ** 32)
        if out.kind == "raise":
            return [("refused-only-when-a-field-does-not-fit", z3.Not(inrange))]
        v = out.value
        n = 92 if self.mutable else 72
        g = [("only-representable-values-are-stored", inrange),
             ("owner-number-round-trips", Z(field(v, "owner_num")) == o),
             ("expiration-time-round-trips", Z(field(v, "_expiration_time")) == t),
             ("renew-secret-round-trips", bytes_same(field(v, "renew_secret"), a["renew"])),
             ("cancel-secret-round-trips", bytes_same(field(v, "cancel_secret"), a["cancel"])),
             ("record-has-the-fixed-size", Z(as_sbytes(out.post["data"]).length) == n)]
        if self.mutable:
            g.append(("nodeid-round-trips", bytes_same(field(v, "nodeid"), a["nodeid"])))
        else:
            g.append(("immutable-record-carries-no-nodeid", z3.BoolVal(field(v, "nodeid") is None)))
        return g

    def canary(self, I, a, out):
        if out.kind != "return":
            return []
        return [("canary", Z(field(out.value, "_expiration_time")) < 2 ** 31)]


class LeaseImmutableRT(_LeaseRT):
    qualname = "LeaseInfo.to_immutable_data"


class LeaseMutableRT(_LeaseRT):
    qualname = "LeaseInfo.to_mutable_data"
    mutable = True


class _LeaseDecEnc(Spec):
    """decode then encode gives the same bytes for EVERY record of the right size; other sizes are refused"""
    file = LEASE
    cross_check = 40
    mutable = False

    @property
    def raises(self):
        import struct
        return (struct.error,)

    @property
    def size(self):
        return 92 if self.mutable else 72

    def inputs(self):
        return {"data": BytesArrK(rndmax=100)}

    def run(self, I, a):
        L = self.module()
        dec = "from_mutable_data" if self.mutable else "from_immutable_data"
        enc = "to_mutable_data" if self.mutable else "to_immutable_data"
        try:
            li = I.call_value(I.get_attr(L.LeaseInfo, dec), [a["data"]], {})
            out = Outcome("return", I.call_value(I.get_attr(li, enc), [], {}))
        except PyRaise as pr:
            out = Outcome("raise", exc=pr.exc, exc_cls=pr.cls)
        return out

    def native(self, a):
        from allmydata.storage.lease import LeaseInfo
        if self.mutable:
            return native_outcome(lambda: LeaseInfo.from_mutable_data(a["data"]).to_mutable_data())
        return native_outcome(lambda: LeaseInfo.from_immutable_data(a["data"]).to_immutable_data())

    def ensures(self, I, a, out):
        n = Z(as_sbytes(a["data"]).length)
        if out.kind == "raise":
            return [("refused-only-for-a-wrong-size", n != self.size)]
        return [("only-records-of-the-fixed-size-decode", n == self.size),
                ("re-encoding-gives-the-same-bytes", bytes_same(out.value, a["data"]))]

    def canary(self, I, a, out):
        if out.kind != "return":
            return []
        return [("canary", as_sbytes(out.value).at(0) == 0)]


class LeaseImmutableDecEnc(_LeaseDecEnc):
    qualname = "LeaseInfo.from_immutable_data"


class LeaseMutableDecEnc(_LeaseDecEnc):
    qualname = "LeaseInfo.from_mutable_data"
    mutable = True


class ImmutableHeaderRT(Spec):
    """immutable_schema._Schema.header(max_size) decodes (">LLL") to (version, min(2**32-1, max_size), 0)"""
    file = "allmydata/storage/immutable_schema.py"
    qualname = "_Schema.header"
    cross_check = 30

    @property
    def raises(self):
        import struct
        return (struct.error,)

    def inputs(self):
        return {"version": ChoiceK([1, 2]), "max_size": IntK(rnd=lambda r: r.choice([0, 1, 2 ** 32 - 1, 2 ** 32, 2 ** 40, -1, r.randrange(2 ** 33)]))}

    def all_cases(self):
        return [{"version": 1}, {"version": 2}]

    def schema(self, a):
        return [x for x in self.module().ALL_SCHEMAS if x.version == a["version"]][0]

    def run(self, I, a):
        import struct
        h = I.call_value(self.target(I), [self.schema(a), a["max_size"]], {})
        out = Outcome("return", I.call_value(struct.unpack, [">LLL", h], {}))
        out.post = {"header": h}
        return out

    def native(self, a):
        import struct

        def f():
            return struct.unpack(">LLL", self.schema(a).header(a["max_size"]))
        return native_outcome(f)

    def same_result(self, n, s):
        from pyvc.runner import plain_equal
        return plain_equal(tuple(n.value), tuple(s.value))

    def ensures(self, I, a, out):
        m = Z(a["max_size"])
        if out.kind == "raise":
            return [("refused-only-for-a-negative-size", m < 0)]
        v, sz, nl = out.value
        return [("version-round-trips", Z(v) == a["version"]),
                ("size-field-is-the-saturated-size", Z(sz) == z3.If(m < 2 ** 32 - 1, m, 2 ** 32 - 1)),
                ("a-new-container-has-no-leases", Z(nl) == 0),
                ("negative-sizes-are-not-stored", m >= 0)]

    def canary(self, I, a, out):
        if out.kind != "return":
            return []
        return [("canary", Z(out.value[1]) == Z(a["max_size"]))]


class MutableHeaderRT(Spec):
    """MutableShareFile.create writes a header which the real readers decode back to what was given"""
    file = "allmydata/storage/mutable.py"
    qualname = "MutableShareFile.create"
    cross_check = 20
    raises = ()

    def inputs(self):
        return {"version": ChoiceK([1, 2]), "nodeid": BytesArrK(fixed=20), "we": BytesArrK(fixed=32)}

    def all_cases(self):
        return [{"version": 1}, {"version": 2}]

    def schema(self, a):
        import allmydata.storage.mutable_schema as MS
        return [x for x in MS.ALL_SCHEMAS if x.version == a["version"]][0]

    def run(self, I, a):
        from pyvc.models_ext2 import FileObj, PathTok
        import allmydata.storage.mutable_schema as MS
        MSF = self.module().MutableShareFile
        ms = SObj(MSF, {"home": PathTok("home"), "_schema": self.schema(a)})
        I.call_value(self.target(I), [ms, a["nodeid"], a["we"]], {})
        f = FileObj("home", "rb")
        res = {}
        res["we_nodeid"] = I.call_value(I.get_attr(ms, "_read_write_enabler_and_nodeid"), [f], {})
        res["data_length"] = I.call_value(I.get_attr(ms, "_read_data_length"), [f], {})
        res["elo"] = I.call_value(I.get_attr(ms, "_read_extra_lease_offset"), [f], {})
        res["extra"] = I.call_value(I.get_attr(ms, "_read_num_extra_leases"), [f], {})
        res["slots"] = I.call_value(I.get_attr(ms, "_get_num_lease_slots"), [f], {})
        c, n = as_arr(file_post(I, "home"))
        magic = bytes(z3.simplify(z3.Select(c, i)).as_long() for i in range(32))
        res["schema"] = I.call_value(I.get_attr(MS, "schema_from_header"), [magic], {})
        out = Outcome("return", res)
        out.post = {"file": file_post(I, "home")}
        return out

    def native(self, a):
        import os
        from allmydata.storage.mutable import MutableShareFile
        import allmydata.storage.mutable_schema as MS
        with TempDir() as d:
            p = os.path.join(d, "share")
            ms = MutableShareFile(p, None, schema=self.schema(a))

            def f():
                ms.create(a["nodeid"], a["we"])
                with open(p, "rb") as fh:
                    return {"we_nodeid": ms._read_write_enabler_and_nodeid(fh), "data_length": ms._read_data_length(fh),
                            "elo": ms._read_extra_lease_offset(fh), "extra": ms._read_num_extra_leases(fh),
                            "slots": ms._get_num_lease_slots(fh), "schema": MS.schema_from_header(open(p, "rb").read(32))}
            out = native_outcome(f)
            out.post = {"file": open(p, "rb").read() if os.path.exists(p) else b""}
            return out

    def same_result(self, n, s):
        from pyvc.runner import plain_equal
        return all(plain_equal(n.value[k], s.value[k]) for k in ("data_length", "elo", "extra", "slots")) and n.value["schema"] is s.value["schema"]

    def ensures(self, I, a, out):
        r = out.value
        we, nid = r["we_nodeid"]
        c, n = as_arr(out.post["file"])
        return [("write-enabler-round-trips", bytes_same(we, a["we"])),
                ("nodeid-round-trips", bytes_same(nid, a["nodeid"])),
                ("new-container-is-empty", Z(r["data_length"]) == 0),
                ("extra-lease-offset-is-right-after-the-four-slots", Z(r["elo"]) == 468),
                ("no-extra-leases", Z(r["extra"]) == 0),
                ("four-lease-slots-and-no-more", Z(r["slots"]) == 4),
                ("every-lease-slot-is-blank", forall_range(100, 468, lambda j: z3.Select(c, j) == 0)),
                ("magic-identifies-the-schema-that-wrote-it", z3.BoolVal(r["schema"] is self.schema(a))),
                ("file-is-exactly-header-slots-and-count", n == 472)]

    def canary(self, I, a, out):
        return [("canary", as_sbytes(out.value["we_nodeid"][0]).at(0) == 0)]


NS = "allmydata/util/netstring.py"


class NetstringRT(Spec):
    """split_netstring(netstring(s1)+...+netstring(sn) [+ trailer], n) == ([s1..sn], end)"""
    file = NS
    qualname = "split_netstring"
    level = "B"
    bound = "1..3 netstrings per call (contents and lengths symbolic)"
    cross_check = 30
    raises = ()

    def inputs(self):
        d = {"n": ChoiceK([1, 2, 3]), "trailer": ChoiceK([None, b"", b"xyz"])}
        for i in range(3):
            d["s%d" % i] = StrK(True, rndmax=15)
        return d

    def all_cases(self):
        return [{"n": n, "trailer": t} for n in (1, 2, 3) for t in (None, b"", b"xyz")]

    def config(self):
        return {"rope": True, "atoms": {"s%d" % i: (None, 0) for i in range(3)}}

    def run(self, I, a):
        M = self.module()
        data = b""
        for i in range(a["n"]):
            data = I.binop(ast.Add(), data, I.call_value(I.get_attr(M, "netstring"), [a["s%d" % i]], {}))
        if a["trailer"]:
            data = I.binop(ast.Add(), data, a["trailer"])
        self._data = data
        return I.call_value(self.target(I), [data, a["n"], 0, a["trailer"]], {})

    def native(self, a):
        from allmydata.util.netstring import netstring, split_netstring
        data = b"".join(netstring(a["s%d" % i]) for i in range(a["n"])) + (a["trailer"] or b"")
        return native_outcome(lambda: split_netstring(data, a["n"], 0, a["trailer"]))

    def ensures(self, I, a, out):
        if I is None:
            want = ([a["s%d" % i] for i in range(a["n"])], sum(len(b"%d:%s," % (len(a["s%d" % i]), a["s%d" % i])) for i in range(a["n"])) + len(a["trailer"] or b""))
            return [("round-trip", z3.BoolVal((list(out.value[0]), out.value[1]) == want))]
        els, pos = out.value
        g = [("number-of-elements", z3.BoolVal(len(els) == a["n"]))]
        for i in range(min(len(els), a["n"])):
            g.append(("element-%d-round-trips" % i, as_sstr(els[i]).term == as_sstr(a["s%d" % i]).term))
        g.append(("position-is-the-end-of-the-consumed-data", Z(pos) == Z(I.len_of(self._data))))
        return g

    def canary(self, I, a, out):
        return [("canary", Z(I.len_of(out.value[0][0])) < 10)]


class NetstringStrict(Spec):
    """On ANY data (array-bytes, any length): a normal return of split_netstring(data, 1) means the data really starts
    with '<numeral>:<exactly that many bytes>,'.  Negative, truncated and unterminated encodings are refused."""
    file = NS
    qualname = "split_netstring"
    level = "B"
    bound = "one netstring; length prefix of at most 3 bytes without whitespace, '+' or '_' (data itself of any length)"
    cross_check = 60

    @property
    def raises(self):
        return (ValueError, AssertionError, IndexError)

    def inputs(self):
        def rnd(r):
            body = bytes(r.choice(b"ab,:-0123456789") for _ in range(r.randint(0, 12)))
            pre = r.choice([b"%d" % len(body), b"-%d" % r.randint(0, 9), b"%d" % r.randint(0, 20), b"x", b""])
            return (pre + b":" + body + r.choice([b",", b"", b",x", b";"]))[:40]
        k = BytesArrK(rndmax=40)
        k.random = rnd
        return {"data": k}

    def requires(self, I, a):
        d = as_sbytes(a["data"])
        n = Z(d.length)
        bad = [9, 10, 11, 12, 13, 32, 43, 95]
        colon_early = z3.Or([z3.And(n > i, d.at(i) == 58) for i in range(4)])
        clean = z3.And([z3.Implies(n > i, d.at(i) != x) for i in range(3) for x in bad])
        return z3.And(colon_early, clean)

    def run(self, I, a):
        return I.call_value(self.target(I), [a["data"], 1], {})

    def native(self, a):
        from allmydata.util.netstring import split_netstring
        return native_outcome(lambda: split_netstring(a["data"], 1))

    def ensures(self, I, a, out):
        if out.kind == "raise":
            return []
        if I is None:
            d = a["data"]
            els, pos = out.value
            c = d.index(b":")
            try:
                announced = int(d[:c])
            except ValueError:
                announced = None
            e = els[0] if len(els) == 1 else None
            return [("one-element", z3.BoolVal(len(els) == 1)),
                    ("element-has-exactly-the-announced-length", z3.BoolVal(e is not None and announced == len(e))),
                    ("element-is-the-bytes-after-the-colon", z3.BoolVal(e is not None and d[c + 1:c + 1 + len(e)] == e)),
                    ("terminated-by-a-comma-inside-the-data", z3.BoolVal(e is not None and d[c + 1 + len(e):c + 2 + len(e)] == b",")),
                    ("position-is-just-past-the-comma", z3.BoolVal(e is not None and pos == c + 2 + len(e)))]
        els, pos = out.value
        d = as_sbytes(a["data"])
        g = [("one-element", z3.BoolVal(len(els) == 1))]
        if len(els) != 1 or not I.ghost.get("sb_index") or not I.ghost.get("sb_int"):
            return g + [("numeral-and-colon-were-parsed", z3.BoolVal(False))]
        e = as_sbytes(els[0])
        c, announced = I.ghost["sb_index"][0], I.ghost["sb_int"][0]
        L = Z(e.length)
        g += [("element-has-exactly-the-announced-length", Z(announced) == L),
              ("element-is-the-bytes-after-the-colon", forall_range(0, L, lambda i: e.at(i) == d.at(c + 1 + i))),
              ("terminated-by-a-comma-inside-the-data", z3.And(c + 1 + L < Z(d.length), d.at(c + 1 + L) == 44)),
              ("position-is-just-past-the-comma", Z(pos) == c + 2 + L)]
        return g

    def canary(self, I, a, out):
        if out.kind != "return":
            return []
        return [("canary", Z(as_sbytes(out.value[0][0]).length) < 5)]


UEB_INT = ("size", "segment_size", "num_segments", "needed_shares", "total_shares")
UEB_BYTES = ("codec_name", "codec_params", "tail_codec_params", "crypttext_hash", "crypttext_root_hash", "share_root_hash")


class UEBRoundTrip(Spec):
    """unpack_extension(pack_extension(d)) == d for the URI-extension-block fields the encoder emits"""
    file = "allmydata/uri.py"
    qualname = "pack_extension"
    level = "B"
    bound = "the 11 UEB keys written by immutable/encode.py (values symbolic: any non-negative integers, any byte strings)"
    cross_check = 30
    raises = ()

    def inputs(self):
        d = {}
        for k in UEB_INT:
            d[k] = IntK(0, rnd=lambda r: r.choice([0, 1, 9, 10, 2 ** 64, r.randrange(10 ** 6)]))
        for k in UEB_BYTES:
            d[k] = StrK(True, rndmax=34)
        return d

    def config(self):
        return {"rope": True, "atoms": {k: (None, 0) for k in UEB_BYTES}}

    def run(self, I, a):
        M = self.module()
        for k in UEB_INT:
            if is_sym_int(a[k]):
                I.ghost.setdefault("nonneg", set()).add(a[k].get_id())
        packed = I.call_value(self.target(I), [dict(a)], {})
        out = Outcome("return", I.call_value(I.get_attr(M, "unpack_extension"), [packed], {}))
        out.post = {"packed": packed}
        return out

    def native(self, a):
        from allmydata.uri import pack_extension, unpack_extension
        return native_outcome(lambda: unpack_extension(pack_extension(dict(a))))

    def same_result(self, n, s):
        from pyvc.runner import plain_equal
        return plain_equal(dict(n.value), dict(s.value))

    def ensures(self, I, a, out):
        d = out.value
        g = [("same-set-of-keys", z3.BoolVal(sorted(d.keys()) == sorted(a.keys())))]
        for k in UEB_INT:
            g.append(("integer-field-%s-round-trips" % k, (Z(d[k]) == Z(a[k])) if k in d and is_intlike(d[k]) else z3.BoolVal(False)))
        for k in UEB_BYTES:
            g.append(("bytes-field-%s-round-trips" % k, (as_sstr(d[k]).term == as_sstr(a[k]).term) if k in d and not is_intlike(d[k]) else z3.BoolVal(False)))
        return g

    def canary(self, I, a, out):
        return [("canary", Z(out.value["size"]) < 1000)]


# ------------------------------------------------------------------ base32 / base62: finite-domain table lemma + bounded run-time contracts

def b32_spec_ok(s):
    """specification of could_be_base32_encoded: every character in the alphabet, a length class that some number of
    whole bytes produces, and no set bits below the last whole byte"""
    import base64
    alphabet = b"abcdefghijklmnopqrstuvwxyz234567"
    if s == b"":
        return True
    if any(c not in alphabet for c in s):
        return False
    m = len(s) % 8
    unused = (5 * m) % 8 if m else 0
    if m and unused >= 5:
        return False
    return alphabet.index(s[-1]) % (1 << unused) == 0


def b32_table_failures():
    import allmydata.util.base32 as B
    bad = []
    for m in range(8):
        for c in range(256):
            s = b"a" * ((m - 1) % 8 + (8 if m == 0 else 0)) + bytes([c])
            assert len(s) % 8 == m and len(s) >= 1
            got = bool(B.could_be_base32_encoded(s))
            if got != b32_spec_ok(s):
                bad.append({"input": s, "accepted": got, "spec": b32_spec_ok(s)})
    return bad


def b32_roundtrip_failures(maxlen, rng):
    import allmydata.util.base32 as B
    bad = []
    n = 0
    for ln in range(maxlen + 1):
        for x in (bytes(ln), b"\xff" * ln, bytes(rng.randrange(256) for _ in range(ln)), bytes(rng.randrange(256) for _ in range(ln))):
            n += 1
            try:
                e = B.b2a(x)
                ok = B.a2b(e) == x and b32_spec_ok(e) and len(e) == (8 * ln + 4) // 5
            except Exception as ex:        # noqa
                ok, e = False, repr(ex)
            if not ok:
                bad.append({"input": x, "encoded": e})
    # decode side: every accepted string re-encodes to itself, every other string is refused
    alphabet = b"abcdefghijklmnopqrstuvwxyz234567"
    pool = alphabet + b"A=18 _"
    for ln in range(1, 18):
        for _ in range(120):
            s = bytes(rng.choice(alphabet) for _ in range(ln - 1)) + bytes([rng.choice(pool)])
            if rng.random() < 0.15:
                s = bytes(rng.choice(pool) for _ in range(ln))
            n += 1
            try:
                d = B.a2b(s)
                ok = b32_spec_ok(s) and B.b2a(d) == s
            except AssertionError:
                ok = not b32_spec_ok(s)
            except Exception as ex:        # noqa
                ok = False
            if not ok:
                bad.append({"input": s, "accepted_by_spec": b32_spec_ok(s)})
    return bad, n


def b62_roundtrip_failures(maxlen, rng):
    import allmydata.util.base62 as B
    bad = []
    n = 0
    for ln in range(maxlen + 1):
        for x in (bytes(ln), b"\xff" * ln, b"\x00" * max(0, ln - 1) + b"\x01" * min(1, ln), bytes(rng.randrange(256) for _ in range(ln)), bytes(rng.randrange(256) for _ in range(ln))):
            n += 1
            try:
                e = B.b2a(x)
                ok = B.a2b(e) == x and all(c in B.chars for c in e)
            except Exception as ex:        # noqa
                ok, e = False, repr(ex)
            if not ok:
                bad.append({"input": x, "encoded": e})
    return bad, n


def ueb_framing_failures(rng):
    """native run-time contract on uri.unpack_extension: a block whose framing was damaged (separator byte replaced, length
    field changed by a digit) is rejected or still yields the ORIGINAL dictionary -- never a different one"""
    from allmydata import uri
    bad, n = [], 0
    for trial in range(12):
        d0 = {"size": rng.randrange(1, 10 ** 6), "segment_size": rng.randrange(1, 10 ** 5), "num_segments": rng.randrange(1, 50), "needed_shares": 3, "total_shares": 10,
              "codec_name": b"crs", "crypttext_root_hash": bytes(rng.randrange(256) for _ in range(32)), "share_root_hash": bytes(rng.randrange(256) for _ in range(32)),
              "tail_codec_params": b"1-2-3", "codec_params": b"4-5-6"}
        packed = uri.pack_extension(d0)
        want = uri.unpack_extension(packed)
        # positions of the framing bytes, recomputed by walking the encoding
        pos, frames = 0, []
        while pos < len(packed):
            c1 = packed.index(b":", pos)
            c2 = packed.index(b":", c1 + 1)
            length = int(packed[c1 + 1:c2])
            sep = c2 + 1 + length
            frames.append((c1, c2, sep))
            pos = sep + 1
        for (c1, c2, sep) in frames:
            mutants = [packed[:sep] + repl + packed[sep + 1:] for repl in (b";", b":", b"x", b"")]
            digits = packed[c1 + 1:c2]
            for delta in (-1, 1, 10):
                v = int(digits) + delta
                if v >= 0:
                    mutants.append(packed[:c1 + 1] + b"%d" % v + packed[c2:])
            for m in mutants:
                n += 1
                try:
                    got = uri.unpack_extension(m)
                except Exception:       # noqa
                    continue
                if got != want:
                    bad.append({"mutated_at": int(sep), "accepted_keys": sorted(got)[:12], "original_keys": sorted(want)[:12], "mutant_len": len(m), "original_len": len(packed)})
    return bad, n


def extra_checks(rep, tier):
    import random
    rng = random.Random(rep.seed * 31 + 7)
    m32, m62 = (64, 40) if tier == "quick" else (600, 300)
    checks = [("Base32Table:could_be_base32_encoded-equals-its-specification-on-all-8x256-classes", "P", lambda: (b32_table_failures(), 2048)),
              ("Base32:b2a-a2b-round-trip-and-refusal-of-malformed-strings", "B", lambda: b32_roundtrip_failures(m32, rng)),
              ("Base62:b2a-a2b-round-trip", "B", lambda: b62_roundtrip_failures(m62, rng)),
              ("UEBFraming:a-block-with-damaged-framing-is-rejected-or-reads-as-the-original-never-as-another-dictionary", "B", lambda: ueb_framing_failures(rng))]
    for name, lvl, fn in checks:
        bad, n = fn()
        rep.obligations += 1
        if lvl == "B":
            rep.bounded_obligations += 1
        rep.paths += n
        rep.sym_paths += n
        if not bad:
            rep.discharged += 1
            rep.discharged_names.add(name)
            continue
        rep.violations.append({"property": "C38", "contract": name.split(":")[0], "obligation": name, "status": "runtime",
                               "inputs": {k: (v.hex() if isinstance(v, bytes) else v) for k, v in bad[0].items()},
                               "native_outcome": "%d of %d evaluations fail; first: %r" % (len(bad), n, bad[0]), "confirmed_on_real_code": True})
    rep.bounds.append("base32: every length 0..%d (4 contents each) + 2040 decode-side strings up to 17 chars; base62: every length 0..%d (5 contents each); base32 acceptance table: whole finite domain" % (m32, m62))


def contracts(tier):
    # a lease record must still decode to the values it was given after it has been renewed in place (hashed v2 records included):
    # the renewal contracts of C25 are re-run here
    from contracts.C25 import RenewLease, AddOrRenewLease
    return [LeaseImmutableRT(), LeaseMutableRT(), LeaseImmutableDecEnc(), LeaseMutableDecEnc(), ImmutableHeaderRT(), MutableHeaderRT(), NetstringRT(), NetstringStrict(), UEBRoundTrip(),
            RenewLease(), AddOrRenewLease()]
