"""C43 Node and capability identity is consistent -- contracts on __eq__/__ne__/__hash__"""
import z3
from pyvc.harness import Spec, StrK, ChoiceK, Outcome
from pyvc.interp import ModelFn
from pyvc.values import *  # noqa
from contracts.lib import *  # noqa

LEVEL = "proof"
MANIFEST_ENTRY = {
    "text": "Unbounded proof, for all capability strings, that ==, != and hash() of the cap base class and of the immutable, literal, mutable and unknown node classes satisfy: equal iff same comparison class and equal cap strings; != is the negation of ==; equal objects hash equally. Plus a structural obligation that every anchored node class defines the trio.",
    "note": "to_string() of a cap is abstracted as an arbitrary byte string (its injectivity w.r.t. the cap fields is C15); Python's str hash is an uninterpreted function. DirectoryNode defines no __eq__/__hash__: recorded as a known finding.",
}
EXPLANATION = "Comparison methods executed symbolically on pairs of objects (same class / foreign object)."
TRUSTED = ["python str.__hash__ is a function of the string (uninterpreted)"]
ASSUMPTIONS = []
NOT_DECIDED = ""


def cap_obj(I, capstr):
    import allmydata.uri as U
    return SObj(U._BaseURI, {"capstr": capstr})


CFG = {"overrides": {("getattr", "_BaseURI", "to_string"): lambda I, obj: ModelFn("to_string", lambda I_, a, k: obj.fields["capstr"])}}


CFG["concrete_overrides"] = CFG["overrides"]


def B(v):
    return z3.BoolVal(v) if isinstance(v, bool) else v


class _Identity(Spec):
    cross_check = 60
    kinds = ("same", "foreign")

    def inputs(self):
        return {"cap_a": StrK(True, rndmax=3, alphabet="ab"), "cap_b": StrK(True, rndmax=3, alphabet="ab"), "other": ChoiceK(self.kinds)}

    def all_cases(self):
        return [{"other": k} for k in self.kinds]

    def config(self):
        return CFG

    qualname = None

    def mk(self, I, cap):
        raise NotImplementedError

    def mk_foreign(self, I, cap):
        return cap   # a plain bytes object: some other type

    def mk_native(self, cap):
        raise NotImplementedError

    def run(self, I, a):
        x = self.mk(I, a["cap_a"])
        y = self.mk(I, a["cap_b"]) if a["other"] == "same" else self.mk_foreign(I, a["cap_b"])
        import ast
        eq = I.compare(ast.Eq(), x, y)
        ne = I.compare(ast.NotEq(), x, y)
        out = Outcome("return", None)
        out.post = {"eq": eq, "ne": ne}
        if a["other"] == "same":
            out.post["hx"] = I.call_value(hash, [x], {})
            out.post["hy"] = I.call_value(hash, [y], {})
        return out

    def native(self, a):
        def f():
            x = self.mk_native(a["cap_a"])
            y = self.mk_native(a["cap_b"]) if a["other"] == "same" else self.mk_foreign_native(a["cap_b"])
            r = {"eq": x == y, "ne": x != y}
            if a["other"] == "same":
                r["hx"], r["hy"] = hash(x), hash(y)
            return r
        out = native_outcome(f)
        if out.kind == "return":
            out.post = out.value
            out.value = None
        return out

    def mk_foreign_native(self, cap):
        return cap

    def same_result(self, n, s):
        from pyvc.runner import plainify
        return n.post["eq"] == plainify(s.post["eq"]) and n.post["ne"] == plainify(s.post["ne"])

    def ensures(self, I, a, out):
        eq, ne = B(out.post["eq"]), B(out.post["ne"])
        ca, cb = as_sstr(a["cap_a"]).term, as_sstr(a["cap_b"]).term
        g = [("ne-is-negation-of-eq", ne == z3.Not(eq))]
        if a["other"] == "same":
            g.append(("eq-iff-cap-strings-equal", eq == (ca == cb)))
            g.append(("equal-objects-hash-equally", z3.Implies(eq, Z(out.post["hx"]) == Z(out.post["hy"]))))
        else:
            g.append(("foreign-object-never-equal", z3.Not(eq)))
        return g

    def canary(self, I, a, out):
        return [("canary", B(out.post["eq"]))]


class CapIdentity(_Identity):
    file = "allmydata/uri.py"
    qualname = "_BaseURI.__eq__"

    def mk(self, I, cap):
        return cap_obj(I, cap)

    def mk_native(self, cap):
        import allmydata.uri as U

        class Stub(U._BaseURI):
            def __init__(s, c):
                s.c = c

            def to_string(s):
                return s.c
        return Stub(cap)


class ImmutableNodeIdentity(_Identity):
    file = "allmydata/immutable/filenode.py"
    qualname = "ImmutableFileNode.__ne__"

    def mk(self, I, cap):
        return SObj(self.module().ImmutableFileNode, {"u": cap_obj(I, cap)})

    def mk_native(self, cap):
        from allmydata.immutable.filenode import ImmutableFileNode
        n = object.__new__(ImmutableFileNode)
        n.u = CapIdentity().mk_native(cap)
        return n


class LiteralNodeIdentity(_Identity):
    file = "allmydata/immutable/literal.py"
    qualname = "_ImmutableFileNodeBase.__eq__"

    def mk(self, I, cap):
        return SObj(self.module().LiteralFileNode, {"u": cap_obj(I, cap)})

    def mk_native(self, cap):
        from allmydata.immutable.literal import LiteralFileNode
        n = object.__new__(LiteralFileNode)
        n.u = CapIdentity().mk_native(cap)
        return n


class MutableNodeIdentity(_Identity):
    file = "allmydata/mutable/filenode.py"
    qualname = "MutableFileNode.__eq__"

    # other per-node attributes derived from the cap are functions of the cap string, not injective
    # (e.g. the read-write and read-only caps of one file share a storage index)
    @staticmethod
    def SI(t):
        return z3.SubString(t, 0, 1)

    def mk(self, I, cap):
        return SObj(self.module().MutableFileNode, {"_uri": cap_obj(I, cap), "_storage_index": SStr(self.SI(as_sstr(cap).term), True)})

    def mk_native(self, cap):
        from allmydata.mutable.filenode import MutableFileNode
        n = object.__new__(MutableFileNode)
        n._uri = CapIdentity().mk_native(cap)
        n._storage_index = cap[:1]   # a non-injective function of the cap, as the real derivation is
        return n


def extra_checks(rep, tier):
    """structural obligation: every node class in the property's anchor list defines __eq__, __ne__ and __hash__."""
    import importlib, inspect
    from pyvc.runner import load_known_findings
    for modname, cls in (("allmydata.immutable.filenode", "ImmutableFileNode"), ("allmydata.immutable.literal", "LiteralFileNode"),
                         ("allmydata.mutable.filenode", "MutableFileNode"), ("allmydata.dirnode", "DirectoryNode"),
                         ("allmydata.uri", "_BaseURI")):
        c = getattr(importlib.import_module(modname), cls)
        rep.obligations += 1
        missing = [m for m in ("__eq__", "__ne__", "__hash__") if inspect.getattr_static(c, m) in (getattr(object, m),)]
        if not missing:
            rep.discharged += 1
            rep.discharged_names.add("structural:%s-defines-eq-ne-hash" % cls)
            continue
        full = "structural:%s-defines-eq-ne-hash" % cls
        for f in load_known_findings():
            if f.get("property") == "C43" and f.get("status") == "known" and f.get("key", {}).get("obligation") == full:
                if not any(k["id"] == f["id"] for k in rep.known):
                    rep.known.append(f)
                rep.obligations -= 1
                break
        else:
            rep.violations.append({"property": "C43", "contract": "structural", "obligation": full, "status": "structural",
                                   "solver_output": "class %s inherits %s from object: two node objects for the same cap compare unequal" % (cls, missing),
                                   "inputs": {"class": cls}, "confirmed_on_real_code": True})


def contracts(tier):
    return [CapIdentity(), ImmutableNodeIdentity(), LiteralNodeIdentity(), MutableNodeIdentity()]
