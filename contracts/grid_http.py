"""Run-time differential contract for the HTTP storage protocol (bounded stand-in used by C31 and C30): twin REAL StorageServers on
temporary directories receive the same seeded operation history, one through direct calls (the path Foolscap uses), the other
through the REAL HTTP client (StorageClientImmutables / Mutables / General) talking to the REAL HTTPServer resource over treq's
in-memory agent.  After every operation the results and the logical server state (visible shares and their bytes, space
reserved by uploads in progress, mutable slots, lease secrets) must agree.  Interleaved are requests that must be refused
(wrong swissnum, wrong/missing upload secret, wrong write enabler) and must leave the state untouched.

    python -m contracts.grid_http <seed> <number of scenarios>      -> one JSON object on stdout
"""
import json
import random
import shutil
import sys
import tempfile
import time
import warnings


def main_(seed, nscen):
    warnings.simplefilter("ignore")
    from twisted.internet import task
    from twisted.internet.task import Cooperator
    from twisted.internet.defer import ensureDeferred
    from twisted.web.http_headers import Headers
    from treq.testing import StubTreq
    from hyperlink import DecodedURL
    try:
        from twisted.internet.testing import MemoryReactorClock
    except ImportError:
        from twisted.test.proto_helpers import MemoryReactorClock
    from allmydata.util import cputhreadpool
    cputhreadpool._DISABLED = True
    from allmydata.storage.server import StorageServer
    from allmydata.storage.http_server import HTTPServer
    from allmydata.storage.http_client import (StorageClient, StorageClientImmutables, StorageClientMutables, StorageClientGeneral, StorageClientFactory, ClientException,
                                               TestVector, WriteVector, ReadVector, TestWriteVectors)
    from allmydata.interfaces import DataTooLargeError, ConflictingWriteError, BadWriteEnablerError
    StorageClientFactory.start_test_mode(lambda pool: None)

    rng = random.Random(seed)
    report = {"scenarios": 0, "operations": 0, "refused_requests": 0, "problems": [], "notes": {}}

    def note(k_):
        report["notes"][k_] = report["notes"].get(k_, 0) + 1

    def scenario(idx):
        clock = MemoryReactorClock()
        task._theCooperator = Cooperator(scheduler=lambda c: clock.callLater(0.000001, c))
        dirs = [tempfile.mkdtemp(prefix="verifhttp."), tempfile.mkdtemp(prefix="verifhttp.")]
        try:
            A = StorageServer(dirs[0], b"\x00" * 20, clock=clock)      # direct
            B = StorageServer(dirs[1], b"\x00" * 20, clock=clock)      # behind HTTP
            swiss = b"swissnum-%d" % idx
            treq = StubTreq(HTTPServer(clock, B, swiss).get_resource())
            client = StorageClient(DecodedURL.from_text("http://127.0.0.1"), swiss, treq=treq, pool=None, clock=clock, analyze_response=lambda response: None)
            intruder = StorageClient(DecodedURL.from_text("http://127.0.0.1"), b"not-the-swissnum", treq=treq, pool=None, clock=clock, analyze_response=lambda response: None)
            im, mu, gen = StorageClientImmutables(client), StorageClientMutables(client), StorageClientGeneral(client)

            def via_http(d):
                d = ensureDeferred(d)
                res, err = [], []
                d.addCallbacks(res.append, err.append)
                for i in range(20000):
                    if res or err:
                        break
                    clock.advance(0.0001)
                    treq.flush()
                if err:
                    e = err[0].value
                    if isinstance(e, ClientException):
                        return ("http-error", e.code)
                    return ("exception", type(e).__name__ + ": " + str(e)[:120])
                if not res:
                    return ("hang", None)
                return ("ok", res[0])

            sis = [bytes([65 + i]) * 16 for i in range(3)]
            msis = [bytes([97 + i]) * 16 for i in range(2)]
            uploads = {}       # (si, sh) -> {"size", "secret", "bw", "ref"}
            # plain models the DIRECT server is compared with (C22, C23, C24, C28): visible immutable shares, bytes written so far by
            # uploads in progress, mutable slots as byte arrays with the write enabler that created them
            m_visible, m_written, m_slots, m_enabler = {}, {}, {}, {}

            def model_differs(what):
                report["problems"].append({"kind": "model_differs", "history": history[-10:], "what": what})

            def check_model():
                sa = state(A)
                for si_ in sis:
                    want = dict((sh_, v) for (s2, sh_), v in m_visible.items() if s2 == si_)
                    if sa[("imm", si_)] != want:
                        model_differs("immutable storage index %s offers shares %r, the model has %r" % (si_[:1].decode(), dict((k_, len(v)) for k_, v in sa[("imm", si_)].items()), dict((k_, len(v)) for k_, v in want.items())))
                        return False
                reserved = sum(u_["size"] for u_ in uploads.values())
                if sa["reserved"] != reserved:
                    model_differs("the server reserves %d bytes for uploads in progress, the model says %d" % (sa["reserved"], reserved))
                    return False
                for si_ in msis:
                    want = dict((sh_, bytes(v)) for (s2, sh_), v in m_slots.items() if s2 == si_)
                    if sa[("mut", si_)] != want:
                        model_differs("mutable slot %s holds %r, the model has %r" % (si_[:1].decode(), dict((k_, len(v)) for k_, v in sa[("mut", si_)].items()), dict((k_, len(v)) for k_, v in want.items())))
                        return False
                return True
            refdata = {}       # (si, sh) -> the bytes this share is meant to hold
            history = []

            def lease_ids(leases):
                return sorted(tuple(i for i in range(8) if l.is_renew_secret(bytes([i]) * 32)) for l in leases)

            def state(ss):
                out = {"reserved": ss.allocated_size()}
                for si in sis:
                    out[("imm", si)] = dict((sh, br.read(0, 10 ** 6)) for sh, br in ss.get_buckets(si).items())
                    out[("imm-leases", si)] = lease_ids(ss.get_leases(si))
                for si in msis:
                    out[("mut", si)] = dict((sh, v[0]) for sh, v in ss.slot_readv(si, [], [(0, 10 ** 6)]).items())
                    out[("mut-leases", si)] = lease_ids(ss.get_slot_leases(si))
                return out

            def differ(where, what):
                report["problems"].append({"kind": "differs", "history": history[-10:], "what": "%s: %s" % (where, what)})

            nops = rng.randint(15, 40)
            for opi in range(nops):
                report["operations"] += 1
                op = rng.choice(["create", "write", "write", "write", "abort", "timeout", "read", "read", "list", "lease", "rtw", "rtw", "rtw", "mread", "refused", "refused"])
                if op == "create":
                    si = rng.choice(sis)
                    shnums = set(rng.sample(range(4), rng.randint(1, 3)))
                    size = rng.choice([1, 10, 100, 1000])
                    secret = bytes([rng.randrange(256)]) * 32
                    renew, cancel = bytes([rng.randrange(4)]) * 32, b"c" * 32
                    history.append(["create", si.decode(), sorted(shnums), size])
                    already, writers = A.allocate_buckets(si, renew, cancel, shnums, size)
                    rb = via_http(im.create(si, shnums, size, secret, renew, cancel))
                    if rb[0] != "ok":
                        differ("create", "direct call answered (%r, %r), HTTP answered %r" % (sorted(already), sorted(writers), rb))
                        return
                    if set(rb[1].already_have) != set(already) or set(rb[1].allocated) != set(writers):
                        differ("create", "direct: already=%r allocated=%r; HTTP: already=%r allocated=%r" % (sorted(already), sorted(writers), sorted(rb[1].already_have), sorted(rb[1].allocated)))
                        return
                    want_already = set(sh_ for (s2, sh_) in m_visible if s2 == si)      # every share of this storage index the server holds, asked for or not
                    want_new = set(sh for sh in shnums if (si, sh) not in m_visible and (si, sh) not in uploads)
                    if set(already) != want_already or set(writers) != want_new:
                        model_differs("allocate_buckets(%r) answered already=%r new=%r; the model expects already=%r new=%r" % (sorted(shnums), sorted(already), sorted(writers), sorted(want_already), sorted(want_new)))
                        return
                    for sh, bw in writers.items():
                        uploads[(si, sh)] = {"size": size, "secret": secret, "bw": bw}
                        refdata[(si, sh)] = bytes(rng.randrange(256) for _ in range(size))
                        m_written[(si, sh)] = [bytearray(size), [False] * size]
                elif op == "write" and uploads:
                    key = rng.choice(sorted(uploads))
                    u = uploads[key]
                    si, sh = key
                    off = rng.randrange(0, u["size"] + 2)
                    ln = rng.randint(1, max(1, u["size"]))
                    if rng.random() < 0.5:
                        off, ln = 0, u["size"]
                    data = refdata[key][off:off + ln]
                    kind = "same"
                    if rng.random() < 0.15:
                        data = bytes(rng.randrange(256) for _ in range(ln))        # may conflict with what is already there
                        kind = "random"
                    if rng.random() < 0.1:
                        data = data + b"overrun"
                        kind = "overrun"
                    if not data:
                        continue
                    history.append(["write", si.decode(), sh, off, len(data), kind])
                    buf, mask = m_written[key]
                    if any(off + j < u["size"] and mask[off + j] and buf[off + j] != data[j] for j in range(len(data))):
                        m_expect = "conflict"           # looked for first, over the part that overlaps what is already there
                    elif off + len(data) > u["size"]:
                        m_expect = "too-large"
                    else:
                        m_expect = "ok"
                    try:
                        fin = u["bw"].write(off, data)
                        ra = ("ok", fin)
                        if fin:
                            u["bw"].close()
                    except ConflictingWriteError:
                        ra = ("conflict", None)
                    except DataTooLargeError:
                        ra = ("too-large", None)
                    rb = via_http(im.write_share_chunk(si, sh, u["secret"], off, data))
                    if rb[0] == "ok":
                        rbn = ("ok", rb[1].finished)
                    elif rb[0] == "http-error":
                        rbn = ("rejected", None)
                        if rb[1] >= 500:
                            note("write rejected by the direct server with %s is answered HTTP %d" % (ra[0], rb[1]))
                    else:
                        rbn = rb
                    if ra[0] != m_expect:
                        model_differs("write of %d bytes at %d into a %d-byte share: the server says %r, the byte-array model says %r" % (len(data), off, u["size"], ra[0], m_expect))
                        return
                    if ra[0] == "ok":
                        for j in range(len(data)):
                            buf[off + j] = data[j]
                            mask[off + j] = True
                        if ra[1] != all(mask):
                            model_differs("write reported finished=%s, the model has %d of %d bytes written" % (ra[1], sum(mask), len(mask)))
                            return
                        if ra[1]:
                            m_visible[key] = bytes(buf)
                            del m_written[key]
                    if ra[0] in ("conflict", "too-large"):
                        ra = ("rejected", None)
                    if ra != rbn:
                        differ("write", "direct %r, HTTP %r" % (ra, rb))
                        return
                    if ra == ("ok", True):
                        del uploads[key]
                elif op == "abort" and uploads:
                    key = rng.choice(sorted(uploads))
                    u = uploads.pop(key)
                    m_written.pop(key, None)
                    history.append(["abort", key[0].decode(), key[1]])
                    u["bw"].abort()
                    rb = via_http(im.abort_upload(key[0], key[1], u["secret"]))
                    if rb[0] != "ok":
                        differ("abort", "direct abort done, HTTP %r" % (rb,))
                        return
                elif op == "timeout" and uploads and rng.random() < 0.3:
                    history.append(["31 minutes pass"])
                    clock.advance(31 * 60)
                    uploads.clear()
                    m_written.clear()
                elif op == "read":
                    si, sh = rng.choice(sis), rng.randrange(4)
                    off, ln = rng.choice([0, 1, 50, 999, 1000, 5000]), rng.choice([1, 10, 1000, 100000])
                    history.append(["read", si.decode(), sh, off, ln])
                    bs = A.get_buckets(si)
                    ra = ("ok", bs[sh].read(off, ln)) if sh in bs else ("missing", None)
                    m_ra = ("ok", m_visible[(si, sh)][off:off + ln]) if (si, sh) in m_visible else ("missing", None)
                    if ra != m_ra:
                        model_differs("read(%d, %d) of share %d: the server returns %r, the model %r" % (off, ln, sh, (ra[0], len(ra[1] or b"")), (m_ra[0], len(m_ra[1] or b""))))
                        return
                    rb = via_http(im.read_share_chunk(si, sh, off, ln))
                    if rb == ("http-error", 404):
                        rb = ("missing", None)
                    if ra != rb:
                        differ("read", "direct %r, HTTP %r" % (ra if ra[0] != "ok" else ("ok", len(ra[1])), rb if rb[0] != "ok" else ("ok", len(rb[1]))))
                        return
                elif op == "list":
                    si = rng.choice(sis)
                    history.append(["list", si.decode()])
                    ra = set(A.get_buckets(si))
                    rb = via_http(im.list_shares(si))
                    if rb[0] != "ok" or set(rb[1]) != ra:
                        differ("list", "direct %r, HTTP %r" % (sorted(ra), rb))
                        return
                elif op == "lease":
                    si = rng.choice(sis + msis)
                    renew = bytes([rng.randrange(6)]) * 32
                    history.append(["add-lease", si.decode(), renew[0]])
                    try:
                        A.add_lease(si, renew, b"c" * 32)
                        ra = "ok"
                    except Exception as e:       # noqa
                        ra = type(e).__name__
                    rb = via_http(gen.add_or_renew_lease(si, renew, b"c" * 32))
                    have = bool(A.get_buckets(si)) if si in sis else bool(A.enumerate_mutable_shares(si))
                    if (rb[0] == "ok") != (ra == "ok" and have) and not (rb == ("http-error", 404) and not have):
                        differ("add-lease", "direct %r (shares exist: %s), HTTP %r" % (ra, have, rb))
                        return
                elif op == "rtw":
                    si = rng.choice(msis)
                    we = rng.choice([b"w" * 32] * 6 + [b"x" * 32])
                    renew = bytes([rng.randrange(4)]) * 32
                    tw_direct, tw_http = {}, {}
                    for sh in rng.sample(range(3), rng.randint(1, 2)):
                        cur = A.slot_readv(si, [sh], [(0, 10 ** 6)]).get(sh, [b""])[0]
                        tests = []
                        for _ in range(rng.randint(0, 2)):
                            o, l_ = rng.randrange(0, 30), rng.randrange(0, 10)
                            spec = cur[o:o + l_] if rng.random() < 0.8 else bytes(rng.randrange(256) for _ in range(l_))
                            tests.append((o, l_, spec))
                        writes = [(rng.choice([0, 1, 5, 20, 200]), bytes(rng.randrange(256) for _ in range(rng.randrange(0, 30)))) for _ in range(rng.randint(0, 2))]
                        newlen = rng.choice([None, None, None, 0, 3, 50])
                        tw_direct[sh] = ([(o, l_, b"eq", s_) for (o, l_, s_) in tests], writes, newlen)
                        tw_http[sh] = TestWriteVectors(test_vectors=[TestVector(offset=o, size=l_, specimen=s_) for (o, l_, s_) in tests],
                                                       write_vectors=[WriteVector(offset=o, data=d_) for (o, d_) in writes], new_length=newlen)
                    rv = [(rng.randrange(0, 40), rng.randrange(0, 60)) for _ in range(rng.randint(0, 2))]
                    history.append(["read-test-write", si.decode(), "wrong-enabler" if we != b"w" * 32 else "enabler", dict((str(k_), [len(v[0]), len(v[1]), v[2]]) for k_, v in tw_direct.items()), rv])
                    try:
                        ok, reads = A.slot_testv_and_readv_and_writev(si, (we, renew, b"c" * 32), tw_direct, rv)
                        ra = ("ok", ok, dict((k_, list(v)) for k_, v in reads.items()))
                    except BadWriteEnablerError:
                        ra = ("bad-enabler",)
                    # --- the byte-array model of read-test-write
                    existing = dict((sh_, v) for (s2, sh_), v in m_slots.items() if s2 == si)
                    if any(m_enabler[(si, sh_)] != we for sh_ in existing):
                        m_ra = ("bad-enabler",)
                    else:
                        tests_ok = all(bytes(existing.get(sh_, b""))[o:o + l_] == s_ for sh_, (tv, wv, nl) in tw_direct.items() for (o, l_, op_, s_) in tv)
                        reads_m = dict((sh_, [bytes(v)[o:o + l_] for (o, l_) in rv]) for sh_, v in existing.items())
                        m_ra = ("ok", tests_ok, reads_m)
                        if tests_ok:
                            for sh_, (tv, wv, nl) in tw_direct.items():
                                if nl == 0:
                                    m_slots.pop((si, sh_), None)
                                    m_enabler.pop((si, sh_), None)
                                    continue
                                if (si, sh_) not in m_slots:
                                    m_slots[(si, sh_)] = bytearray()
                                    m_enabler[(si, sh_)] = we
                                b_ = m_slots[(si, sh_)]
                                for (o, d_) in wv:
                                    if o + len(d_) >= len(b_):
                                        if o > len(b_):
                                            b_.extend(b"\x00" * (o - len(b_)))
                                        del b_[o:]
                                        b_.extend(b"\x00" * 0)
                                        b_.extend(d_)
                                    else:
                                        b_[o:o + len(d_)] = d_
                                if nl is not None and nl < len(b_):
                                    del b_[nl:]
                    if ra != m_ra:
                        model_differs("read-test-write: the server answers %r, the byte-array model %r" % (ra if len(str(ra)) < 300 else str(ra)[:300], m_ra if len(str(m_ra)) < 300 else str(m_ra)[:300]))
                        return
                    rb = via_http(mu.read_test_write_chunks(si, we, renew, b"c" * 32, tw_http, [ReadVector(offset=o, size=l_) for (o, l_) in rv]))
                    if rb[0] == "ok":
                        rbn = ("ok", rb[1].success, dict((k_, list(v)) for k_, v in rb[1].reads.items()))
                    elif rb == ("http-error", 401):
                        rbn = ("bad-enabler",)
                    else:
                        rbn = rb
                    if ra != rbn:
                        differ("read-test-write", "direct %r, HTTP %r" % (ra, rbn))
                        return
                elif op == "mread":
                    si, sh = rng.choice(msis), rng.randrange(3)
                    off, ln = rng.choice([0, 3, 40, 500]), rng.choice([1, 20, 100000])
                    history.append(["mutable-read", si.decode(), sh, off, ln])
                    r = A.slot_readv(si, [sh], [(off, ln)])
                    ra = ("ok", r[sh][0]) if sh in r else ("missing", None)
                    rb = via_http(mu.read_share_chunk(si, sh, off, ln))
                    if rb == ("http-error", 404):
                        rb = ("missing", None)
                    if ra != rb:
                        differ("mutable-read", "direct %r, HTTP %r" % (ra, rb))
                        return
                    ra = set(A.enumerate_mutable_shares(si))
                    rb = via_http(mu.list_shares(si))
                    if rb[0] != "ok" or set(rb[1]) != ra:
                        differ("mutable-list", "direct %r, HTTP %r" % (sorted(ra), rb))
                        return
                elif op == "refused":
                    # requests that must be refused and must change nothing (C30)
                    before = state(B)
                    import base64

                    def enc(si_):
                        return str(base64.b32encode(si_).rstrip(b"=").lower(), "ascii")
                    si, msi, sh = rng.choice(sis), rng.choice(msis), rng.randrange(4)
                    rtw_msg = {"test-write-vectors": {0: {"test": [], "write": [{"offset": 0, "data": b"evil"}], "new-length": None}}, "read-vector": []}
                    endpoints = {
                        "version": ("GET", "/storage/v1/version", {}),
                        "create": ("POST", "/storage/v1/immutable/" + enc(si), dict(lease_renew_secret=b"r" * 32, lease_cancel_secret=b"c" * 32, upload_secret=b"u" * 32, message_to_serialize={"share-numbers": {0, 1}, "allocated-size": 10})),
                        "list": ("GET", "/storage/v1/immutable/%s/shares" % enc(si), {}),
                        "read": ("GET", "/storage/v1/immutable/%s/%d" % (enc(si), sh), dict(headers=Headers({"range": ["bytes=0-9"]}))),
                        "lease": ("PUT", "/storage/v1/lease/" + enc(si), dict(lease_renew_secret=b"\x07" * 32, lease_cancel_secret=b"c" * 32)),
                        "rtw": ("POST", "/storage/v1/mutable/%s/read-test-write" % enc(msi), dict(write_enabler_secret=b"w" * 32, lease_renew_secret=b"r" * 32, lease_cancel_secret=b"c" * 32, message_to_serialize=rtw_msg)),
                        "mutable-list": ("GET", "/storage/v1/mutable/%s/shares" % enc(msi), {}),
                        "mutable-read": ("GET", "/storage/v1/mutable/%s/%d" % (enc(msi), sh % 3), dict(headers=Headers({"range": ["bytes=0-9"]}))),
                    }
                    if uploads:
                        key = rng.choice(sorted(uploads))
                        u = uploads[key]
                        endpoints["write"] = ("PATCH", "/storage/v1/immutable/%s/%d" % (enc(key[0]), key[1]), dict(upload_secret=u["secret"], data=refdata[key][:1], headers=Headers({"content-range": ["bytes 0-0/*"]})))
                        endpoints["abort"] = ("PUT", "/storage/v1/immutable/%s/%d/abort" % (enc(key[0]), key[1]), dict(upload_secret=u["secret"]))
                    name = rng.choice(sorted(endpoints))
                    method, path, kw = endpoints[name]
                    mode = rng.choice(["wrong-swissnum", "wrong-swissnum", "wrong-secret", "missing-secret"])
                    kw = dict(kw)
                    who = client
                    expect = (401,)
                    if mode == "wrong-swissnum":
                        who = intruder
                    elif mode == "wrong-secret":
                        if name not in ("write", "abort"):
                            continue
                        others = [u_["secret"] for k_, u_ in uploads.items() if k_ != key and u_["secret"] != u["secret"]]
                        # either a made-up secret or the (valid) secret of ANOTHER upload in progress
                        kw["upload_secret"] = rng.choice(others) if others and rng.random() < 0.6 else bytes([kw["upload_secret"][0] ^ 0xff]) * 32
                    else:
                        secrets = [k_ for k_ in kw if k_.endswith("_secret")]
                        if not secrets:
                            continue
                        del kw[rng.choice(secrets)]
                        expect = (400, 401)
                    which = "%s on %s %s" % (mode, method, name)
                    history.append(["must-be-refused", which])
                    report["refused_requests"] += 1
                    rb = via_http(who.request(method, who.relative_url(path), **kw))
                    if rb[0] == "ok":
                        body = via_http(rb[1].content())
                        rb = ("http-error", rb[1].code) if rb[1].code in expect else ("answered", rb[1].code, (body[1] or b"")[:60] if body[0] == "ok" else None)
                    if rb[0] != "http-error":
                        report["problems"].append({"kind": "not_refused", "history": history[-10:], "what": "%s was answered %r instead of being refused with %r" % (which, rb, expect)})
                        return
                    after = state(B)
                    if after != before:
                        report["problems"].append({"kind": "refused_but_changed_state", "history": history[-10:], "what": "%s was refused (%r) but the server state changed" % (which, rb)})
                        return
                    continue
                else:
                    continue
                if not check_model():
                    return
                sa, sb = state(A), state(B)
                if sa != sb:
                    keys = [k_ for k_ in sa if sa[k_] != sb.get(k_)]
                    differ("server state after " + str(history[-1][0]), "differs in %r: direct %r, HTTP %r" % (keys[0], str(sa[keys[0]])[:200], str(sb[keys[0]])[:200]))
                    return
            report["scenarios"] += 1
        finally:
            for d in dirs:
                shutil.rmtree(d, ignore_errors=True)

    try:
        for i in range(nscen):
            scenario(i)
    except Exception:       # noqa
        import traceback
        report["problems"].append({"kind": "harness", "what": "harness error: " + traceback.format_exc()[-1500:]})
    print(json.dumps(report))


BOUND = ("HTTP-versus-direct twin-server histories (real StorageServer x2, real HTTPServer resource, real StorageClient* over treq's in-memory agent, thread pool disabled): 15..40 operations over 3 immutable and 2 mutable "
         "storage indexes -- create, chunked writes (in order, overlapping, conflicting, overrunning), abort, 31-minute timeout, range reads incl. past the end and of missing shares, list, add-lease, "
         "read-test-write with matching/failing test vectors, truncation, deletion and wrong write enabler, mutable reads -- interleaved with requests that must be refused: every endpoint with a wrong swissnum, "
         "write/abort with a made-up secret or with the secret of another upload in progress, requests with one secret header missing")
KINDS = {
    "C22": (("model_differs",), "the-direct-server-behaves-like-the-byte-array-model-visibility-exact-reads-conflicts-aborts-timeouts-reservations"),
    "C23": (("model_differs",), "mutable-slots-behave-like-growable-byte-arrays-under-read-test-write-histories"),
    "C24": (("model_differs",), "read-test-write-is-all-or-nothing-guarded-by-the-write-enabler-reads-show-the-state-before"),
    "C28": (("model_differs",), "space-reserved-for-uploads-in-progress-is-exactly-their-allocated-sizes-and-is-released-on-close-abort-timeout"),
    "C31": (("differs",), "the-HTTP-path-and-the-direct-path-give-the-same-results-and-leave-the-same-server-state"),
    "C30": (("not_refused", "refused_but_changed_state"), "requests-without-the-right-swissnum-or-secret-are-refused-and-change-nothing"),
}


def grid_check(rep, tier, prop):
    from contracts import scenario_runner
    kinds, name = KINDS[prop]
    scenario_runner.run(rep, tier, prop, "grid_http", kinds, name, BOUND, ("scenarios", "operations", "refused_requests"), quick=(8, 40), thorough=(16, 1500), contract="HttpTwinScenarios")


if __name__ == "__main__":
    main_(int(sys.argv[1]), int(sys.argv[2]))
