"""An in-process grid built from the REAL server side and the REAL client side, for the bounded run-time scenario contracts
(contracts/grid_upload.py, ...): N allmydata.storage.server.StorageServer instances on temporary directories, each behind a
FoolscapStorageServer and a local stand-in for a foolscap RemoteReference (callRemote answers on a later reactor turn and can
be made to fail); the client side is the real StorageFarmBroker / NativeStorageServer / _StorageServer adapter, Uploader,
NodeMaker, file nodes, checker, repairer, dirnodes.  Nothing here is a model of tahoe code: the only invented parts are the
wire (LocalWrapper) and the fault switches.

Written after allmydata/test/no_network.py (which cannot be imported in this sandbox: magic-wormhole, filelock are absent).
"""
import os
import shutil
import tempfile


def build(num_servers=10, k=3, happy=7, n=10, readonly=(), full=(), max_segment_size=None, basedir=None):
    from zope.interface import implementer
    from twisted.internet import defer
    from twisted.python.failure import Failure
    from foolscap.api import Referenceable, fireEventually, RemoteException
    from foolscap.ipb import IRemoteReference
    from allmydata import client
    from allmydata.node import config_from_string
    from allmydata.nodemaker import NodeMaker
    from allmydata.interfaces import SDMF_VERSION
    from allmydata.immutable import upload
    from allmydata.storage.server import StorageServer, FoolscapStorageServer
    from allmydata.storage_client import StorageFarmBroker
    from allmydata.util import base32, hashutil

    class IntentionalError(Exception):
        pass

    class Marker(object):
        pass

    @implementer(IRemoteReference)
    class LocalWrapper(object):
        def __init__(self, original, owner=None):
            self.original = original
            self.owner = owner or self      # the server-level wrapper carries the fault switches
            if owner is None:
                self.broken = False          # True, or a dict {methname: calls-to-let-through-before-failing}
                self.calls = []
                self.disconnectors = {}

        def callRemoteOnly(self, methname, *args, **kwargs):
            self.callRemote(methname, *args, **kwargs).addErrback(lambda f: None)
            return None

        def callRemote(self, methname, *args, **kwargs):
            own = self.owner

            def wrap(a):
                return LocalWrapper(a, own) if isinstance(a, Referenceable) else a
            args = tuple(wrap(a) for a in args)
            kwargs = dict((k_, wrap(v)) for k_, v in kwargs.items())

            def _call(ign):
                own.calls.append(methname)
                b = own.broken
                if b is True:
                    raise IntentionalError("server is broken")
                if isinstance(b, dict) and methname in b:
                    if b[methname] <= 0:
                        raise IntentionalError("server breaks on %s" % methname)
                    b[methname] -= 1
                return getattr(self.original, "remote_" + methname)(*args, **kwargs)
            d = fireEventually()
            d.addCallback(_call)
            d.addErrback(lambda f: Failure(RemoteException(f)))

            def _membrane(res):
                if methname == "allocate_buckets":
                    (alreadygot, allocated) = res
                    return (alreadygot, dict((sh, LocalWrapper(bw, own)) for sh, bw in allocated.items()))
                if methname == "get_buckets":
                    return dict((sh, LocalWrapper(br, own)) for sh, br in res.items())
                return res
            d.addCallback(_membrane)
            return d

        def notifyOnDisconnect(self, f, *args, **kwargs):
            m = Marker()
            self.owner.disconnectors[m] = (f, args, kwargs)
            return m

        def dontNotifyOnDisconnect(self, marker):
            self.owner.disconnectors.pop(marker, None)

    class Grid(object):
        pass
    g = Grid()
    g.basedir = basedir or tempfile.mkdtemp(prefix="verifgrid.")
    g.own_basedir = basedir is None
    g.IntentionalError = IntentionalError
    cfg = config_from_string("/dev/null", "tub.port", "")
    sb = StorageFarmBroker(True, None, cfg)
    g.servers, g.wrappers, g.serverids = [], [], []
    for i in range(num_servers):
        serverid = hashutil.tagged_hash(b"serverid", b"%d" % i)[:20]
        d = os.path.join(g.basedir, "s%d" % i)
        os.makedirs(d)
        ss = StorageServer(d, serverid, readonly_storage=(i in readonly), reserved_space=(2 ** 62 if i in full else 0))
        fss = FoolscapStorageServer(ss)
        w = LocalWrapper(fss)
        w.version = fss.remote_get_version()
        sid = base32.b2a(serverid)
        ann = {"anonymous-storage-FURL": "pb://%s@nowhere/fake" % str(sid, "utf-8"), "permutation-seed-base32": sid}
        sb.test_add_rref(sid, w, ann)
        g.servers.append(ss)
        g.wrappers.append(w)
        g.serverids.append(sid)
    g.storage_broker = sb
    g.secret_holder = client.SecretHolder(b"lease secret", b"convergence secret")
    params = {"k": k, "happy": happy, "n": n}
    if max_segment_size:
        params["max_segment_size"] = max_segment_size
    g.params = params

    class Parent(object):
        _secret_holder = g.secret_holder

        def get_encoding_parameters(self):
            p = dict(g.params)
            p.setdefault("max_segment_size", upload.DEFAULT_MAX_SEGMENT_SIZE if hasattr(upload, "DEFAULT_MAX_SEGMENT_SIZE") else 128 * 1024)
            return p

        def get_storage_broker(self):
            return sb
    g.uploader = upload.Uploader()
    g.uploader.parent = Parent()
    g.uploader.running = True

    class Terminator(object):
        def register(self, x):
            pass
    g.nodemaker = NodeMaker(sb, g.secret_holder, None, g.uploader, Terminator(), dict(params), SDMF_VERSION, client.KeyGenerator())

    def share_files(storage_index):
        """ground truth straight from the disks: {(server number, shnum): path}"""
        from allmydata.storage.common import storage_index_to_dir
        out = {}
        for i, ss in enumerate(g.servers):
            d = os.path.join(ss.sharedir, storage_index_to_dir(storage_index))
            if os.path.isdir(d):
                for f in os.listdir(d):
                    if f.isdigit():
                        out[(i, int(f))] = os.path.join(d, f)
        return out
    g.share_files = share_files

    def incoming_files():
        out = []
        for ss in g.servers:
            for root, dirs, files in os.walk(os.path.join(ss.sharedir, "incoming")):
                out.extend(os.path.join(root, f) for f in files)
        return out
    g.incoming_files = incoming_files

    def cleanup():
        if g.own_basedir:
            shutil.rmtree(g.basedir, ignore_errors=True)
    g.cleanup = cleanup
    return g


def max_matching(edges):
    """size of a maximum matching in the bipartite graph {server: set(shnums)} (independent of allmydata.immutable.happiness_upload)"""
    match = {}

    def augment(s, seen):
        for sh in edges[s]:
            if sh in seen:
                continue
            seen.add(sh)
            if sh not in match or augment(match[sh], seen):
                match[sh] = s
                return True
        return False
    return sum(1 for s in edges if augment(s, set()))
