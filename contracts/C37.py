"""C37 Byte-range bookkeeping is exact -- contracts on allmydata/util/spans.py"""
import z3
from pyvc.harness import Spec, IntK, ChoiceK, Outcome
from pyvc.values import *  # noqa
from contracts.lib import native_outcome, as_sbytes
from pyvc.values import to_z3_int as Z

LEVEL = "other"
MANIFEST_ENTRY = {"text": 'Unbounded proof (all integers) of overlap/adjacent against interval-set semantics; Spans.add/remove/__contains__/len/+/-/& against integer-set semantics with the representation invariant, for Spans of up to 2 spans (thorough: 3) with symbolic bounds (shape bound, hence level other). DataSpans: see level note.', "note": 'P for overlap/adjacent. Trusted: pyvc engine (cross-checked vs CPython each run), z3.'}
EXPLANATION = "overlap/adjacent proved for all integers."
TRUSTED = []
ASSUMPTIONS = []
NOT_DECIDED = ""


class Overlap(Spec):
    file = "allmydata/util/spans.py"
    qualname = "overlap"

    def inputs(self):
        return {"start0": IntK(), "length0": IntK(), "start1": IntK(), "length1": IntK()}

    def requires(self, I, a):
        return z3.And(Z(a["length0"]) > 0, Z(a["length1"]) > 0)

    def ensures(self, I, a, out):
        s0, l0, s1, l1 = (Z(a[k]) for k in ("start0", "length0", "start1", "length1"))
        x = z3.Int("x")
        inter = lambda x: z3.And(s0 <= x, x < s0 + l0, s1 <= x, x < s1 + l1)
        if out.value is None:
            return [("none-iff-disjoint", z3.Not(z3.Exists([x], inter(x))))]
        st, ln = out.value
        return [("region-is-intersection", z3.And(Z(ln) > 0, z3.ForAll([x], inter(x) == z3.And(Z(st) <= x, x < Z(st) + Z(ln)))))]

    def canary(self, I, a, out):
        if out.value is None:
            return [("canary", z3.BoolVal(True))]
        st, ln = out.value
        return [("canary", Z(ln) > 1)]

    def native(self, a):
        from allmydata.util import spans
        return Outcome("return", spans.overlap(a["start0"], a["length0"], a["start1"], a["length1"]))


class Adjacent(Spec):
    file = "allmydata/util/spans.py"
    qualname = "adjacent"

    def inputs(self):
        return {"start0": IntK(), "length0": IntK(), "start1": IntK(), "length1": IntK()}

    def requires(self, I, a):
        return z3.And(Z(a["length0"]) > 0, Z(a["length1"]) > 0)

    def ensures(self, I, a, out):
        s0, l0, s1, l1 = (Z(a[k]) for k in ("start0", "length0", "start1", "length1"))
        spec = z3.Or(s0 + l0 == s1, s1 + l1 == s0)
        r = out.value
        return [("adjacent-iff-touching", (z3.BoolVal(r) if isinstance(r, bool) else r) == spec)]

    def canary(self, I, a, out):
        return [("canary", z3.BoolVal(out.value is True) if isinstance(out.value, bool) else out.value)]

    def native(self, a):
        from allmydata.util import spans
        return Outcome("return", spans.adjacent(a["start0"], a["length0"], a["start1"], a["length1"]))


def rep(spans):
    """representation invariant of Spans._spans: positive lengths, sorted, separated by at least one missing integer"""
    cs = []
    prev_end = None
    for (st, ln) in spans:
        st, ln = Z(st), Z(ln)
        cs.append(ln > 0)
        cs.append(st >= 0)
        if prev_end is not None:
            cs.append(st > prev_end)
        prev_end = st + ln
    return z3.And(cs) if cs else z3.BoolVal(True)


def member(spans, x):
    return z3.Or([z3.And(Z(st) <= x, x < Z(st) + Z(ln)) for (st, ln) in spans]) if spans else z3.BoolVal(False)


class _Spans(Spec):
    file = "allmydata/util/spans.py"
    level = "B"
    maxspans = 2
    method = None
    cross_check = 120

    @property
    def bound(self):
        return "Spans holding 0..%d spans (all starts/lengths symbolic)" % self.maxspans

    @property
    def qualname(self):
        return "Spans." + self.method

    def span_inputs(self, prefix="s", n=None):
        d = {}
        for i in range(n if n is not None else self.maxspans):
            d["%s%d" % (prefix, i)] = IntK(0, rnd=lambda r: r.randint(0, 30))
            d["%sl%d" % (prefix, i)] = IntK(1, rnd=lambda r: r.randint(1, 8))
        return d

    def inputs(self):
        d = self.span_inputs()
        d.update({"n": ChoiceK(range(self.maxspans + 1)), "start": IntK(0, rnd=lambda r: r.randint(0, 40)), "length": IntK(1, rnd=lambda r: r.randint(1, 12))})
        return d

    def all_cases(self):
        return [{"n": n} for n in range(self.maxspans + 1)]

    def spans(self, a, prefix="s", n=None):
        return [(a["%s%d" % (prefix, i)], a["%sl%d" % (prefix, i)]) for i in range(a["n"] if n is None else n)]

    def requires(self, I, a):
        return z3.And(rep(self.spans(a)), Z(a["start"]) >= 0, Z(a["length"]) > 0)

    def mk(self, I, a, spans=None):
        return SObj(self.module().Spans, {"_spans": list(self.spans(a) if spans is None else spans)})

    def mk_native(self, a, spans=None):
        from allmydata.util.spans import Spans
        o = Spans()
        o._spans = list(self.spans(a) if spans is None else spans)
        return o

    def same_result(self, n, s):
        from pyvc.runner import plain_equal
        return plain_equal(n.post, s.post) and plain_equal(n.value if not hasattr(n.value, "_spans") else None, s.value if not isinstance(s.value, SObj) else None)


class SpansAdd(_Spans):
    method = "add"

    def run(self, I, a):
        o = self.mk(I, a)
        I.call_value(self.target(I), [o, a["start"], a["length"]], {})
        out = Outcome("return", None)
        out.post = {"spans": list(o.fields["_spans"])}
        return out

    def native(self, a):
        o = self.mk_native(a)
        out = native_outcome(lambda: o.add(a["start"], a["length"]))
        out.value = None
        out.post = {"spans": list(o._spans)}
        return out

    def ensures(self, I, a, out):
        new, old = out.post["spans"], self.spans(a)
        x = z3.Int("x")
        st, ln = Z(a["start"]), Z(a["length"])
        return [("representation-invariant-kept", rep(new)),
                ("set-is-old-set-plus-the-range", z3.ForAll([x], member(new, x) == z3.Or(member(old, x), z3.And(st <= x, x < st + ln))))]

    def canary(self, I, a, out):
        return [("canary", z3.BoolVal(len(out.post["spans"]) == a["n"]))]


class SpansRemove(SpansAdd):
    method = "remove"

    def native(self, a):
        o = self.mk_native(a)
        out = native_outcome(lambda: o.remove(a["start"], a["length"]))
        out.value = None
        out.post = {"spans": list(o._spans)}
        return out

    def ensures(self, I, a, out):
        new, old = out.post["spans"], self.spans(a)
        x = z3.Int("x")
        st, ln = Z(a["start"]), Z(a["length"])
        return [("representation-invariant-kept", rep(new)),
                ("set-is-old-set-minus-the-range", z3.ForAll([x], member(new, x) == z3.And(member(old, x), z3.Not(z3.And(st <= x, x < st + ln)))))]


class SpansContains(_Spans):
    method = "__contains__"

    def run(self, I, a):
        r = I.call_value(self.target(I), [self.mk(I, a), (a["start"], a["length"])], {})
        out = Outcome("return", r)
        out.post = {}
        return out

    def native(self, a):
        return native_outcome(lambda: (a["start"], a["length"]) in self.mk_native(a))

    def ensures(self, I, a, out):
        x = z3.Int("x")
        st, ln = Z(a["start"]), Z(a["length"])
        r = out.value
        r = z3.BoolVal(r) if isinstance(r, bool) else r
        return [("contains-iff-every-integer-of-the-range-is-in-the-set", r == z3.ForAll([x], z3.Implies(z3.And(st <= x, x < st + ln), member(self.spans(a), x))))]

    def canary(self, I, a, out):
        r = out.value
        return [("canary", z3.Not(z3.BoolVal(r) if isinstance(r, bool) else r))]


class SpansLen(_Spans):
    method = "len"
    cross_check = 40

    def run(self, I, a):
        out = Outcome("return", I.call_value(self.target(I), [self.mk(I, a)], {}))
        out.post = {}
        return out

    def native(self, a):
        return native_outcome(lambda: self.mk_native(a).len())

    def ensures(self, I, a, out):
        return [("len-is-the-number-of-integers-in-the-set", Z(out.value) == sum([Z(l) for (s_, l) in self.spans(a)] or [z3.IntVal(0)]))]

    def canary(self, I, a, out):
        return [("canary", Z(out.value) == 0)]


class SpansSetOps(_Spans):
    """a + b, a - b, a & b against set union / difference / intersection (second operand <= 2 spans)"""
    method = "__and__"
    cross_check = 90

    def inputs(self):
        d = self.span_inputs("s")
        d.update(self.span_inputs("t", 2))
        d.update({"n": ChoiceK(range(self.maxspans + 1)), "m": ChoiceK([0, 1, 2]), "op": ChoiceK(["__add__", "__sub__", "__and__"])})
        return d

    def all_cases(self):
        return [{"n": n, "m": m, "op": op} for n in range(self.maxspans + 1) for m in (0, 1, 2) for op in ("__add__", "__sub__", "__and__")]

    def others(self, a):
        return [(a["t%d" % i], a["tl%d" % i]) for i in range(a["m"])]

    def requires(self, I, a):
        return z3.And(rep(self.spans(a)), rep(self.others(a)))

    def run(self, I, a):
        x, y = self.mk(I, a), self.mk(I, a, self.others(a))
        r = I.call_value(I.get_attr(x, a["op"]), [y], {})
        out = Outcome("return", None)
        out.post = {"spans": list(r.fields["_spans"]), "left_after": list(x.fields["_spans"]), "right_after": list(y.fields["_spans"]),
                    "fresh": r is not x and r is not y and r.fields["_spans"] is not x.fields["_spans"] and r.fields["_spans"] is not y.fields["_spans"]}
        return out

    def native(self, a):
        x, y = self.mk_native(a), self.mk_native(a, self.others(a))
        out = native_outcome(lambda: getattr(x, a["op"])(y))
        if out.kind == "return":
            r = out.value
            out.post = {"spans": list(out.value._spans), "left_after": list(x._spans), "right_after": list(y._spans),
                        "fresh": r is not x and r is not y and r._spans is not x._spans and r._spans is not y._spans}
            out.value = None
        return out

    def ensures(self, I, a, out):
        new, A, B = out.post["spans"], self.spans(a), self.others(a)
        x = z3.Int("x")
        want = {"__add__": z3.Or(member(A, x), member(B, x)), "__sub__": z3.And(member(A, x), z3.Not(member(B, x))),
                "__and__": z3.And(member(A, x), member(B, x))}[a["op"]]
        from pyvc.models import values_equal
        return [("representation-invariant-kept", rep(new)),
                ("result-is-the-set-operation", z3.ForAll([x], member(new, x) == want)),
                ("the-result-is-a-new-object-that-shares-no-span-list-with-an-operand", z3.BoolVal(bool(out.post["fresh"]))),
                ("operands-unchanged", z3.And(z3.BoolVal(len(out.post["left_after"]) == len(A) and len(out.post["right_after"]) == len(B)),
                                             z3.ForAll([x], z3.And(member(out.post["left_after"], x) == member(A, x), member(out.post["right_after"], x) == member(B, x)))))]

    def canary(self, I, a, out):
        return [("canary", z3.BoolVal(len(out.post["spans"]) == 0))]


def drep(spans):
    """DataSpans.spans: non-empty chunks, sorted, neither overlapping nor adjacent"""
    cs, prev_end = [], None
    for (st, data) in spans:
        st, ln = Z(st), Z(as_sbytes(data).length)
        cs += [ln > 0, st >= 0]
        if prev_end is not None:
            cs.append(st > prev_end)
        prev_end = st + ln
    return z3.And(cs) if cs else z3.BoolVal(True)


def dmapped(spans, x):
    return z3.Or([z3.And(Z(st) <= x, x < Z(st) + Z(as_sbytes(d).length)) for (st, d) in spans]) if spans else z3.BoolVal(False)


def dval(spans, x):
    v = z3.IntVal(-1)
    for (st, d) in reversed(spans):
        b = as_sbytes(d)
        v = z3.If(z3.And(Z(st) <= x, x < Z(st) + Z(b.length)), b.at(x - Z(st)), v)
    return v


class _DataSpans(Spec):
    file = "allmydata/util/spans.py"
    level = "B"
    maxspans = 2
    method = None
    cross_check = 100

    @property
    def bound(self):
        return "DataSpans holding 0..%d chunks (offsets, lengths and every byte symbolic)" % self.maxspans

    @property
    def qualname(self):
        return "DataSpans." + self.method

    def inputs(self):
        from pyvc.harness import BytesArrK
        d = {}
        for i in range(self.maxspans):
            d["s%d" % i] = IntK(0, rnd=lambda r: r.randint(0, 30))
            d["d%d" % i] = BytesArrK(1, rndmax=6)
        d.update({"n": ChoiceK(range(self.maxspans + 1)), "start": IntK(0, rnd=lambda r: r.randint(0, 40)), "data": BytesArrK(0, rndmax=10),
                  "length": IntK(0, rnd=lambda r: r.randint(0, 12))})
        return d

    def all_cases(self):
        return [{"n": n} for n in range(self.maxspans + 1)]

    def spans(self, a):
        return [(a["s%d" % i], a["d%d" % i]) for i in range(a["n"])]

    def requires(self, I, a):
        return z3.And(drep(self.spans(a)), Z(a["start"]) >= 0)

    def mk(self, I, a):
        return SObj(self.module().DataSpans, {"spans": list(self.spans(a))})

    def mk_native(self, a):
        from allmydata.util.spans import DataSpans
        o = DataSpans()
        o.spans = list(self.spans(a))
        return o

    def same_result(self, n, s):
        from pyvc.runner import plain_equal
        return plain_equal(n.post, s.post) and plain_equal(n.value, s.value)


class DataSpansAdd(_DataSpans):
    method = "add"

    def run(self, I, a):
        o = self.mk(I, a)
        I.call_value(self.target(I), [o, a["start"], a["data"]], {})
        out = Outcome("return", None)
        out.post = {"spans": list(o.fields["spans"])}
        return out

    def native(self, a):
        o = self.mk_native(a)
        out = native_outcome(lambda: o.add(a["start"], a["data"]))
        out.post = {"spans": list(o.spans)}
        return out

    def ensures(self, I, a, out):
        new, old = out.post["spans"], self.spans(a)
        x = z3.Int("x")
        st = Z(a["start"])
        d = as_sbytes(a["data"])
        inr = z3.And(st <= x, x < st + Z(d.length))
        return [("representation-invariant-kept", drep(new)),
                ("held-offsets-are-old-plus-the-written-range", z3.ForAll([x], dmapped(new, x) == z3.Or(dmapped(old, x), inr))),
                ("later-write-wins-other-bytes-unchanged", z3.ForAll([x], z3.Implies(dmapped(new, x), dval(new, x) == z3.If(inr, d.at(x - st), dval(old, x)))))]

    def canary(self, I, a, out):
        return [("canary", z3.BoolVal(len(out.post["spans"]) == a["n"]))]


class DataSpansRemove(_DataSpans):
    method = "remove"

    def requires(self, I, a):
        return z3.And(drep(self.spans(a)), Z(a["start"]) >= 0, Z(a["length"]) > 0)

    def run(self, I, a):
        o = self.mk(I, a)
        I.call_value(self.target(I), [o, a["start"], a["length"]], {})
        out = Outcome("return", None)
        out.post = {"spans": list(o.fields["spans"])}
        return out

    def native(self, a):
        o = self.mk_native(a)
        out = native_outcome(lambda: o.remove(a["start"], a["length"]))
        out.post = {"spans": list(o.spans)}
        return out

    def ensures(self, I, a, out):
        new, old = out.post["spans"], self.spans(a)
        x = z3.Int("x")
        st, ln = Z(a["start"]), Z(a["length"])
        inr = z3.And(st <= x, x < st + ln)
        return [("representation-invariant-kept", drep(new)),
                ("held-offsets-are-old-minus-the-range", z3.ForAll([x], dmapped(new, x) == z3.And(dmapped(old, x), z3.Not(inr)))),
                ("remaining-bytes-unchanged", z3.ForAll([x], z3.Implies(dmapped(new, x), dval(new, x) == dval(old, x))))]

    def canary(self, I, a, out):
        return [("canary", z3.BoolVal(len(out.post["spans"]) == a["n"]))]


class DataSpansGet(_DataSpans):
    method = "get"

    def requires(self, I, a):
        return z3.And(drep(self.spans(a)), Z(a["start"]) >= 0, Z(a["length"]) > 0)

    def run(self, I, a):
        o = self.mk(I, a)
        r = I.call_value(self.target(I), [o, a["start"], a["length"]], {})
        out = Outcome("return", r)
        out.post = {"spans": list(o.fields["spans"])}
        return out

    def native(self, a):
        o = self.mk_native(a)
        out = native_outcome(lambda: o.get(a["start"], a["length"]))
        out.post = {"spans": list(o.spans)}
        return out

    def ensures(self, I, a, out):
        old = self.spans(a)
        x = z3.Int("x")
        st, ln = Z(a["start"]), Z(a["length"])
        allheld = z3.ForAll([x], z3.Implies(z3.And(st <= x, x < st + ln), dmapped(old, x)))
        if out.value is None:
            return [("None-only-if-some-byte-of-the-range-is-missing", z3.Not(allheld))]
        r = as_sbytes(out.value)
        return [("bytes-returned-only-if-the-whole-range-is-held", allheld), ("returns-exactly-length-bytes", Z(r.length) == ln),
                ("returned-bytes-are-the-held-bytes", z3.ForAll([x], z3.Implies(z3.And(st <= x, x < st + ln), r.at(x - st) == dval(old, x))))]

    def canary(self, I, a, out):
        return [("canary", z3.BoolVal(out.value is None))]


class DataSpansLen(_DataSpans):
    method = "len"
    cross_check = 30

    def run(self, I, a):
        out = Outcome("return", I.call_value(self.target(I), [self.mk(I, a)], {}))
        out.post = {}
        return out

    def native(self, a):
        return native_outcome(lambda: self.mk_native(a).len())

    def ensures(self, I, a, out):
        return [("len-is-the-number-of-held-bytes", Z(out.value) == sum([Z(as_sbytes(d).length) for (s_, d) in self.spans(a)] or [z3.IntVal(0)]))]

    def canary(self, I, a, out):
        return [("canary", Z(out.value) == 0)]


class SpansInPlace(_Spans):
    """s += t and s -= t, including t being s itself (s -= s must leave the empty set, s += s must leave s unchanged)"""
    method = "__isub__"
    cross_check = 60

    def inputs(self):
        d = self.span_inputs("s")
        d.update(self.span_inputs("t", 2))
        d.update({"n": ChoiceK(range(self.maxspans + 1)), "m": ChoiceK([0, 1, 2]), "op": ChoiceK(["__iadd__", "__isub__"]), "other": ChoiceK(["distinct", "itself"])})
        return d

    def all_cases(self):
        cs = []
        for n in range(self.maxspans + 1):
            for op in ("__iadd__", "__isub__"):
                cs.append({"n": n, "m": 0, "op": op, "other": "itself"})
                for m in (0, 1, 2):
                    cs.append({"n": n, "m": m, "op": op, "other": "distinct"})
        return cs

    def others(self, a):
        return [(a["t%d" % i], a["tl%d" % i]) for i in range(a["m"])]

    def requires(self, I, a):
        return z3.And(rep(self.spans(a)), rep(self.others(a)))

    def run(self, I, a):
        x = self.mk(I, a)
        y = x if a["other"] == "itself" else self.mk(I, a, self.others(a))
        r = I.call_value(I.get_attr(x, a["op"]), [y], {})
        out = Outcome("return", None)
        out.post = {"spans": list(x.fields["_spans"]), "same_object": r is x, "right_after": list(y.fields["_spans"])}
        return out

    def native(self, a):
        x = self.mk_native(a)
        y = x if a["other"] == "itself" else self.mk_native(a, self.others(a))
        out = native_outcome(lambda: getattr(x, a["op"])(y))
        if out.kind == "return":
            out.post = {"spans": list(x._spans), "same_object": out.value is x, "right_after": list(y._spans)}
            out.value = None
        return out

    def ensures(self, I, a, out):
        new, A = out.post["spans"], self.spans(a)
        B = A if a["other"] == "itself" else self.others(a)
        x = z3.Int("x")
        want = z3.Or(member(A, x), member(B, x)) if a["op"] == "__iadd__" else z3.And(member(A, x), z3.Not(member(B, x)))
        g = [("representation-invariant-kept", rep(new)),
             ("the-left-operand-becomes-the-set-operation-also-when-the-right-one-is-the-same-object", z3.ForAll([x], member(new, x) == want)),
             ("the-operator-returns-its-left-operand", z3.BoolVal(bool(out.post["same_object"])))]
        if a["other"] == "distinct":
            g.append(("a-distinct-right-operand-is-unchanged", z3.And(z3.BoolVal(len(out.post["right_after"]) == len(B)), z3.ForAll([x], member(out.post["right_after"], x) == member(B, x)))))
        return g


def contracts(tier):
    cs = [Overlap(), Adjacent(), DataSpansAdd(), DataSpansRemove(), DataSpansGet(), DataSpansLen(), SpansAdd(), SpansRemove(), SpansContains(), SpansLen(), SpansSetOps(), SpansInPlace()]
    if tier == "thorough":
        for c in cs[2:]:
            c.maxspans = 3
    return cs
