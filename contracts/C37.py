"""C37 Byte-range bookkeeping is exact -- contracts on allmydata/util/spans.py"""
import z3
from pyvc.harness import Spec, IntK, Outcome
from pyvc.values import to_z3_int as Z

LEVEL = "proof"
MANIFEST_ENTRY = {"text": 'Unbounded proof (all integers) of overlap/adjacent against interval-set semantics; Spans/DataSpans operations: see level note.', "note": 'P for overlap/adjacent. Trusted: pyvc engine (cross-checked vs CPython each run), z3.'}
EXPLANATION = "overlap/adjacent proved for all integers."
TRUSTED = []
ASSUMPTIONS = []
NOT_DECIDED = ""


class Overlap(Spec):
    file = "allmydata/util/spans.py"
    qualname = "overlap"

    def inputs(self):
        return {"start0": IntK(), "length0": IntK(), "start1": IntK(), "length1": IntK()}

    def requires(self, I, a):
        return z3.And(Z(a["length0"]) > 0, Z(a["length1"]) > 0)

    def ensures(self, I, a, out):
        s0, l0, s1, l1 = (Z(a[k]) for k in ("start0", "length0", "start1", "length1"))
        x = z3.Int("x")
        inter = lambda x: z3.And(s0 <= x, x < s0 + l0, s1 <= x, x < s1 + l1)
        if out.value is None:
            return [("none-iff-disjoint", z3.Not(z3.Exists([x], inter(x))))]
        st, ln = out.value
        return [("region-is-intersection", z3.And(Z(ln) > 0, z3.ForAll([x], inter(x) == z3.And(Z(st) <= x, x < Z(st) + Z(ln)))))]

    def canary(self, I, a, out):
        if out.value is None:
            return [("canary", z3.BoolVal(True))]
        st, ln = out.value
        return [("canary", Z(ln) > 1)]

    def native(self, a):
        from allmydata.util import spans
        return Outcome("return", spans.overlap(a["start0"], a["length0"], a["start1"], a["length1"]))


class Adjacent(Spec):
    file = "allmydata/util/spans.py"
    qualname = "adjacent"

    def inputs(self):
        return {"start0": IntK(), "length0": IntK(), "start1": IntK(), "length1": IntK()}

    def requires(self, I, a):
        return z3.And(Z(a["length0"]) > 0, Z(a["length1"]) > 0)

    def ensures(self, I, a, out):
        s0, l0, s1, l1 = (Z(a[k]) for k in ("start0", "length0", "start1", "length1"))
        spec = z3.Or(s0 + l0 == s1, s1 + l1 == s0)
        r = out.value
        return [("adjacent-iff-touching", (z3.BoolVal(r) if isinstance(r, bool) else r) == spec)]

    def canary(self, I, a, out):
        return [("canary", z3.BoolVal(out.value is True) if isinstance(out.value, bool) else out.value)]

    def native(self, a):
        from allmydata.util import spans
        return Outcome("return", spans.adjacent(a["start0"], a["length0"], a["start1"], a["length1"]))


def contracts(tier):
    return [Overlap(), Adjacent()]
