"""Run-time scenario contracts for directories on the real in-process grid (contracts/real_grid.py): bounded end-to-end stand-in
used by C18, C19, C20, C21.  Real DirectoryNodes (backed by real mutable files on real StorageServers) are driven through
seeded histories of add / replace / delete / rename / set-metadata over three directories and compared, after every
operation, with a plain map from NFC-normalized names to (write cap, read cap, user metadata, link times); directories are
re-read through a fresh client with the write cap and with the read cap; at the end the directory graph is traversed.

    python -m contracts.grid_dirnode <seed> <number of scenarios>      -> one JSON object on stdout
"""
import json
import random
import sys
import unicodedata
import warnings

NAMES = ["a", "A", "b", "caf\u00e9", "cafe\u0301", "\u00c5", "A\u030a", "\u212b", "x y", "\u00fc.txt", "u\u0308.txt", "dir", "Dir", "\u1e69", "s\u0323\u0307", "s\u0307\u0323"]


def main_(seed, nscen):
    warnings.simplefilter("ignore")
    from allmydata.util import cputhreadpool
    cputhreadpool._DISABLED = True      # zfec and RSA key generation run inline: no cross-thread wake-ups to lose, reproducible schedules
    import time
    from twisted.internet import defer, reactor
    from allmydata import client, uri
    from allmydata.nodemaker import NodeMaker
    from allmydata.interfaces import SDMF_VERSION, MDMF_VERSION, ExistingChildError, NoSuchChildError, ChildOfWrongTypeError, IDirectoryNode
    from allmydata.mutable.common import NotWriteableError
    from allmydata.dirnode import ONLY_FILES
    from contracts import real_grid

    rng = random.Random(seed)
    report = {"scenarios": 0, "operations": 0, "listings": 0, "traversals": 0, "problems": [], "notes": {}}

    def note(k_):
        report["notes"][k_] = report["notes"].get(k_, 0) + 1

    def with_timeout(d, seconds=90):
        out = defer.Deferred()
        state = []

        def fire(v):
            if not state:
                state.append(1)
                out.callback(v)
        d.addCallbacks(lambda r: fire(("done", r)), lambda f: fire(("failed", f)))
        dc = reactor.callLater(seconds, lambda: fire(("hang", None)))
        out.addBoth(lambda v: (dc.active() and dc.cancel(), v)[1])
        return out

    def new_nodemaker(g):
        class Terminator(object):
            def register(self, x):
                pass
        return NodeMaker(g.storage_broker, g.secret_holder, None, g.uploader, Terminator(), dict(g.params), SDMF_VERSION, client.KeyGenerator())

    def norm(s):
        return unicodedata.normalize("NFC", s)

    def rbytes(n):
        return bytes(rng.randrange(256) for _ in range(n))

    def fabricate():
        """a (kind, write cap, read cap) for a child that needs no shares on the grid"""
        kind = rng.choice(["lit", "chk", "ssk", "ssk-ro", "mdmf"])
        if kind == "lit":
            c = uri.LiteralFileURI(rbytes(rng.randrange(0, 20))).to_string()
            return ("file", None, c)
        if kind == "chk":
            c = uri.CHKFileURI(key=rbytes(16), uri_extension_hash=rbytes(32), needed_shares=3, total_shares=10, size=rng.randrange(56, 10 ** 6)).to_string()
            return ("file", None, c)
        if kind == "mdmf":
            w = uri.WriteableMDMFFileURI(rbytes(16), rbytes(32))
            return ("file", w.to_string(), w.get_readonly().to_string())
        w = uri.WriteableSSKFileURI(rbytes(16), rbytes(32))
        if kind == "ssk-ro":
            return ("file", None, w.get_readonly().to_string())
        return ("file", w.to_string(), w.get_readonly().to_string())

    @defer.inlineCallbacks
    def scenario(idx):
        g = real_grid.build(num_servers=3, k=1, happy=1, n=3)
        try:
            nm = new_nodemaker(g)
            dirs, models = [], []
            for i in range(3):
                st, d = yield with_timeout(nm.create_new_mutable_directory({}, version=rng.choice([SDMF_VERSION, MDMF_VERSION])))
                if st != "done":
                    report["problems"].append({"kind": "harness", "what": "mkdir failed: %s" % (d,)})
                    return
                dirs.append(d)
                models.append({})
            dircaps = dict((d.get_readonly_uri(), i) for i, d in enumerate(dirs))
            history = []

            def child_pool():
                c = fabricate()
                if rng.random() < 0.3:
                    i = rng.randrange(len(dirs))
                    if rng.random() < 0.5:
                        return ("dir", dirs[i].get_uri(), dirs[i].get_readonly_uri())
                    return ("dir", None, dirs[i].get_readonly_uri())
                return c

            def user_md():
                return rng.choice([None, None, {}, {"k": rng.randrange(5)}, {"k": 1, "other": "x"}, {"tahoe": {"linkcrtime": 1.0, "linkmotime": 2.0}, "k": 9}])

            def apply_md(old, new_md, t0):
                """expected metadata after update_metadata(old copy or None, new_md, now), now >= t0"""
                e = {"user": dict(old["user"]) if old else {}, "crtime": old["crtime"] if old else None, "motime_min": t0}
                if new_md is not None:
                    e["user"] = dict((k_, v) for k_, v in new_md.items() if k_ != "tahoe")
                return e

            @defer.inlineCallbacks
            def compare(di, node, why, readonly=False):
                st, listing = yield with_timeout(node.list())
                report["listings"] += 1
                where = {"history": history[-12:], "directory": di, "listed_through": why}
                if st != "done":
                    report["problems"].append(dict(where, kind="list_failed", what="list() %s: %s" % (st, listing)))
                    return False
                m = models[di]
                if set(listing) != set(m):
                    report["problems"].append(dict(where, kind="map_differs", what="directory lists names %r, the model has %r" % (sorted(listing), sorted(m))))
                    return False
                for name, (child, md) in listing.items():
                    e = m[name]
                    rw, ro = child.get_write_uri(), child.get_readonly_uri()
                    if readonly:
                        if rw is not None or (child.is_mutable() and not child.is_readonly()):
                            report["problems"].append(dict(where, kind="write_authority_leaks", what="child %r reached through a read-only directory offers write cap %r (is_readonly=%s)" % (name, rw, child.is_readonly())))
                            return False
                    elif rw != e["rw"]:
                        report["problems"].append(dict(where, kind="map_differs", what="child %r has write cap %r, the model says %r" % (name, rw, e["rw"])))
                        return False
                    if ro != e["ro"]:
                        report["problems"].append(dict(where, kind="map_differs", what="child %r has read cap %r, the model says %r" % (name, ro, e["ro"])))
                        return False
                    user = dict((k_, v) for k_, v in md.items() if k_ != "tahoe")
                    t = md.get("tahoe", {})
                    if user != e["user"]:
                        report["problems"].append(dict(where, kind="metadata_differs", what="child %r has user metadata %r, the model says %r" % (name, user, e["user"])))
                        return False
                    if "linkcrtime" not in t or "linkmotime" not in t:
                        report["problems"].append(dict(where, kind="metadata_differs", what="child %r lacks link times: %r" % (name, md)))
                        return False
                    if e["crtime"] is None:
                        e["crtime"] = t["linkcrtime"]
                        if not (e["motime_min"] <= t["linkcrtime"]):
                            report["problems"].append(dict(where, kind="times_wrong", what="new child %r got link-creation time %r, before the operation started (%r)" % (name, t["linkcrtime"], e["motime_min"])))
                            return False
                    if t["linkcrtime"] != e["crtime"]:
                        report["problems"].append(dict(where, kind="times_wrong", what="child %r: link-creation time changed from %r to %r" % (name, e["crtime"], t["linkcrtime"])))
                        return False
                    if t["linkmotime"] < e["motime_min"]:
                        report["problems"].append(dict(where, kind="times_wrong", what="child %r: modification time %r did not advance to the last update (>= %r)" % (name, t["linkmotime"], e["motime_min"])))
                        return False
                    e["motime_min"] = t["linkmotime"]
                return True

            nops = rng.randint(10, 30)
            for opi in range(nops):
                di = rng.randrange(3)
                d, m = dirs[di], models[di]
                namex = rng.choice(NAMES)
                name = norm(namex)
                op = rng.choice(["set_uri", "set_uri", "set_uri", "set_node", "set_children", "delete", "delete", "move", "move", "set_md", "mkdir", "clone"])
                t0 = time.time()
                ow = rng.choice([True, True, False, ONLY_FILES])
                ow_s = "only-files" if ow == ONLY_FILES else ow
                expect_err = None
                report["operations"] += 1
                if op in ("set_uri", "set_node"):
                    kind, rw, ro = child_pool()
                    md = user_md()
                    history.append([op, di, namex, kind, ow_s, md])
                    if name in m and ow is False:
                        expect_err = ExistingChildError
                    elif name in m and ow == ONLY_FILES and m[name]["isdir"]:
                        expect_err = ExistingChildError
                    if op == "set_uri":
                        dd = d.set_uri(namex, rw if rw is not None else ro, ro if rng.random() < 0.7 or rw is None else None, md, overwrite=ow)
                    else:
                        dd = d.set_node(namex, nm.create_from_cap(rw, ro), md, overwrite=ow)
                    st, res = yield with_timeout(dd)
                    if expect_err is None and st == "done":
                        e = apply_md(m.get(name), md, t0)
                        e.update({"rw": rw, "ro": ro, "isdir": kind == "dir"})
                        m[name] = e
                elif op == "set_children":
                    entries, exp = {}, {}
                    for nx in rng.sample(NAMES, rng.randint(1, 3)):
                        if norm(nx) in exp:
                            continue
                        kind, rw, ro = child_pool()
                        md = user_md()
                        entries[nx] = (rw if rw is not None else ro, ro, md) if md is not None or rng.random() < 0.5 else (rw if rw is not None else ro, ro)
                        exp[norm(nx)] = (kind, rw, ro, md)
                    history.append([op, di, sorted(entries), ow_s])
                    for n_, (kind, rw, ro, md) in exp.items():
                        if n_ in m and (ow is False or (ow == ONLY_FILES and m[n_]["isdir"])):
                            expect_err = ExistingChildError
                    st, res = yield with_timeout(d.set_children(entries, overwrite=ow))
                    if expect_err is None and st == "done":
                        for n_, (kind, rw, ro, md) in exp.items():
                            e = apply_md(m.get(n_), md, t0)
                            e.update({"rw": rw, "ro": ro, "isdir": kind == "dir"})
                            m[n_] = e
                elif op == "delete":
                    must_exist, mbd, mbf = rng.choice([True, True, False]), rng.random() < 0.2, rng.random() < 0.2
                    if mbd and mbf:
                        mbf = False
                    history.append([op, di, namex, must_exist, mbd, mbf])
                    if name not in m:
                        expect_err = NoSuchChildError if must_exist else None
                    elif mbd and not m[name]["isdir"]:
                        expect_err = ChildOfWrongTypeError
                    elif mbf and m[name]["isdir"]:
                        expect_err = ChildOfWrongTypeError
                    st, res = yield with_timeout(d.delete(namex, must_exist=must_exist, must_be_directory=mbd, must_be_file=mbf))
                    if expect_err is None and st == "done":
                        m.pop(name, None)
                elif op == "move":
                    dj = rng.randrange(3)
                    new_namex = rng.choice([None, rng.choice(NAMES)])
                    new_name = name if new_namex is None else norm(new_namex)
                    history.append([op, di, namex, dj, new_namex, ow_s])
                    m2 = models[dj]
                    same = (dj == di and new_name == name)
                    if same:
                        pass
                    elif name not in m:
                        expect_err = NoSuchChildError
                    elif new_name in m2 and (ow is False or (ow == ONLY_FILES and m2[new_name]["isdir"])):
                        expect_err = ExistingChildError
                    st, res = yield with_timeout(d.move_child_to(namex, dirs[dj], new_namex, overwrite=ow))
                    if expect_err is None and st == "done" and not same:
                        src = m[name]
                        e = apply_md(m2.get(new_name), dict(src["user"]), t0)
                        e.update({"rw": src["rw"], "ro": src["ro"], "isdir": src["isdir"]})
                        m2[new_name] = e
                        del m[name]
                elif op == "clone":
                    # a listing of one directory given as the initial children of a new one
                    if len(dirs) >= 6:
                        continue
                    history.append([op, di])
                    st, listing = yield with_timeout(d.list())
                    if st == "done":
                        st, res = yield with_timeout(nm.create_new_mutable_directory(listing))
                    if st == "done":
                        dirs.append(res)
                        models.append(dict((n_, dict(e_, user=dict(e_["user"]))) for n_, e_ in m.items()))
                        dircaps[res.get_readonly_uri()] = len(dirs) - 1
                        ok = yield compare(len(dirs) - 1, new_nodemaker(g).create_from_cap(res.get_uri()), "a fresh client with the write cap of the clone")
                        if not ok:
                            return
                elif op == "set_md":
                    md = rng.choice([{}, {"k": rng.randrange(5)}, {"z": "q", "tahoe": {"linkcrtime": 0}}])
                    history.append([op, di, namex, md])
                    if name not in m:
                        expect_err = NoSuchChildError
                    st, res = yield with_timeout(d.set_metadata_for(namex, md))
                    if expect_err is None and st == "done":
                        e = apply_md(m[name], md, t0)
                        e.update({"rw": m[name]["rw"], "ro": m[name]["ro"], "isdir": m[name]["isdir"]})
                        m[name] = e
                else:
                    if len(dirs) >= 6:
                        continue
                    history.append([op, di, namex, ow_s])
                    if name in m and (ow is False or (ow == ONLY_FILES and m[name]["isdir"])):
                        expect_err = ExistingChildError
                    st, res = yield with_timeout(d.create_subdirectory(namex, overwrite=ow))
                    if expect_err is None and st == "done":
                        e = apply_md(m.get(name), None, t0)
                        e.update({"rw": res.get_uri(), "ro": res.get_readonly_uri(), "isdir": True})
                        m[name] = e
                        dirs.append(res)
                        models.append({})
                        dircaps[res.get_readonly_uri()] = len(dirs) - 1
                where = {"history": history[-12:]}
                if st == "hang":
                    report["problems"].append(dict(where, kind="op_hang", what="%s did not finish" % op))
                    return
                if expect_err is None and st != "done":
                    report["problems"].append(dict(where, kind="op_failed", what="%s failed with %s: %s; the model expects it to succeed" % (op, res.type.__name__, str(res.value)[:160])))
                    return
                if expect_err is not None and (st == "done" or not res.check(expect_err)):
                    report["problems"].append(dict(where, kind="op_should_fail", what="%s %s; the model expects %s" % (op, "succeeded" if st == "done" else "failed with " + res.type.__name__, expect_err.__name__)))
                    return
                # after every operation every touched directory equals the model (a failed operation changes nothing)
                for dk in set([di] + ([history[-1][3]] if op == "move" else [])):
                    ok = yield compare(dk, dirs[dk], "the same client")
                    if not ok:
                        return
                if opi % 5 == 4 or opi == nops - 1:
                    fresh = new_nodemaker(g)
                    for dk in range(len(dirs)):
                        ok = yield compare(dk, fresh.create_from_cap(dirs[dk].get_uri()), "a fresh client with the write cap")
                        if not ok:
                            return
                        ronode = fresh.create_from_cap(dirs[dk].get_readonly_uri())
                        ok = yield compare(dk, ronode, "a fresh client with the read cap", readonly=True)
                        if not ok:
                            return
                        st, res = yield with_timeout(ronode.set_uri("intruder", None, uri.LiteralFileURI(b"x").to_string()))
                        if st == "done" or not res.check(NotWriteableError):
                            report["problems"].append({"kind": "write_authority_leaks", "history": history[-12:], "what": "set_uri through the read cap of directory %d %s" % (dk, "succeeded" if st == "done" else "failed with " + res.type.__name__)})
                            return
            # ------------------------------------------------------------------ deep traversal from every directory (C21)
            def vcap(cap):
                u = uri.from_string(cap)
                v = u.get_verify_cap()
                return v.to_string() if v is not None else None

            for root in range(len(dirs)):
                seen = set([vcap(dirs[root].get_uri())])
                expected = []       # (path, verify cap or None, read cap)

                def walk(dk, path):
                    expected.append((tuple(path), vcap(dirs[dk].get_uri()), dirs[dk].get_readonly_uri()))
                    kids = []
                    for name in sorted(models[dk]):
                        e = models[dk][name]
                        v = vcap(e["ro"])
                        if v is not None and v in seen:
                            continue
                        seen.add(v)
                        kids.append((name, e, v))
                    for name, e, v in kids:
                        if not e["isdir"]:
                            expected.append((tuple(path + [name]), v, e["ro"]))
                    for name, e, v in kids:
                        if e["isdir"]:
                            walk(dircaps[e["ro"]], path + [name])
                walk(root, [])
                start = new_nodemaker(g).create_from_cap(rng.choice([dirs[root].get_uri(), dirs[root].get_readonly_uri()]))
                st, res = yield with_timeout(start.build_manifest().when_done())
                report["traversals"] += 1
                where = {"history": history[-12:], "root": root, "directories": len(dirs)}
                if st != "done":
                    report["problems"].append(dict(where, kind="traversal_failed", what="build_manifest %s: %s" % (st, res)))
                    return
                got = [(tuple(p), vcap(c), c) for (p, c) in res["manifest"]]
                got_objs = sorted((v.decode() if v else "LIT:" + "/".join(p)) for (p, v, c) in got)
                want_objs = sorted((v.decode() if v else "LIT:" + "/".join(p)) for (p, v, c) in expected)
                if got_objs != want_objs:
                    missing = sorted(set(want_objs) - set(got_objs))
                    extra = sorted(set(got_objs) - set(want_objs))
                    dup = sorted(set(x for x in got_objs if got_objs.count(x) > 1))
                    report["problems"].append(dict(where, kind="traversal_wrong", what="manifest from directory %d: %d entries, expected %d; missing %r; unexpected %r; more than once %r" % (root, len(got_objs), len(want_objs), missing[:3], extra[:3], dup[:3])))
                    return
                # each reported path leads to the object reported for it
                for (p, v, c) in got:
                    dk, obj = root, vcap(dirs[root].get_uri())
                    okpath = True
                    for comp in p:
                        e = models[dk].get(comp)
                        if e is None:
                            okpath = False
                            break
                        obj = vcap(e["ro"])
                        if e["isdir"]:
                            dk = dircaps[e["ro"]]
                    if not okpath or obj != v:
                        report["problems"].append(dict(where, kind="traversal_wrong", what="manifest path %r does not lead to the object reported for it" % ("/".join(p),)))
                        return
                st, res = yield with_timeout(start.start_deep_stats().when_done())
                if st != "done":
                    report["problems"].append(dict(where, kind="traversal_failed", what="deep-stats %s: %s" % (st, res)))
                    return
                ndirs = len([1 for (p, v, c) in expected if c in dircaps])
                nfiles = len(expected) - ndirs
                if res["count-directories"] != ndirs or res["count-files"] != nfiles:
                    report["problems"].append(dict(where, kind="traversal_wrong", what="deep-stats counts %d directories and %d files, reachable are %d and %d" % (res["count-directories"], res["count-files"], ndirs, nfiles)))
                    return
            report["scenarios"] += 1
        finally:
            g.cleanup()

    @defer.inlineCallbacks
    def run_all():
        for i in range(nscen):
            yield scenario(i)

    def go():
        d = run_all()
        d.addErrback(lambda f: report["problems"].append({"kind": "harness", "what": "harness error: " + f.getTraceback()[-1500:]}))
        d.addBoth(lambda _: reactor.stop())
    reactor.callWhenRunning(go)
    reactor.run()
    print(json.dumps(report))


BOUND = ("directory scenarios on the real in-process grid (real DirectoryNode over real SDMF/MDMF mutable files on 3 real StorageServers): histories of 10..30 operations "
         "(set_uri, set_node, set_children, delete with must_exist/must_be_directory/must_be_file, move_child_to within and between directories, set_metadata_for, create_subdirectory, new directory from a listing; overwrite True/False/only-files) "
         "over 3..6 directories with 16 names that collide under NFC normalization; children are literal/CHK/SSK/MDMF file caps and write or read caps of the directories themselves (shared subdirectories, cycles); "
         "every touched directory is listed after every operation, all directories are re-read by a fresh client through write cap and read cap every 5 operations; build_manifest and deep-stats from every directory at the end")
KINDS = {
    "C18": (("write_authority_leaks",), "children-reached-through-a-read-cap-offer-no-write-cap-and-the-read-cap-cannot-edit"),
    "C19": (("map_differs", "metadata_differs", "list_failed"), "what-a-fresh-client-lists-is-what-was-stored-names-caps-and-metadata"),
    "C20": (("map_differs", "metadata_differs", "times_wrong", "op_failed", "op_should_fail", "op_hang"), "every-history-of-edits-equals-the-name-map-model-after-every-operation"),
    "C21": (("traversal_failed", "traversal_wrong"), "manifest-and-deep-stats-visit-every-reachable-object-once-and-paths-lead-to-their-objects"),
}


def grid_check(rep, tier, prop):
    from contracts import scenario_runner
    kinds, name = KINDS[prop]
    scenario_runner.run(rep, tier, prop, "grid_dirnode", kinds, name, BOUND, ("scenarios", "operations", "listings", "traversals"), quick=(8, 8), thorough=(16, 200), contract="DirectoryScenarios")


if __name__ == "__main__":
    main_(int(sys.argv[1]), int(sys.argv[2]))
