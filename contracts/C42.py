"""C42 Backup database reuses caps only for unchanged content -- contracts on scripts/backupdb.py BackupDB_v2"""
import re
import z3
from pyvc.harness import Spec, IntK, BoolK, StrK, ChoiceK, Outcome
from pyvc.values import *  # noqa
from contracts.lib import *  # noqa

LEVEL = "other"
MANIFEST_ENTRY = {
    "text": "check_file: for every database state of the queried path (no record / record with any size, mtime, ctime, fileid; cap row present or not), every os.stat result and either value of use_timestamps, a cap is returned for reuse ONLY IF a record exists whose size, mtime and ctime all equal the current stat values, timestamps are trusted and the cap row exists, and the cap returned is the recorded one; otherwise the stale record is deleted and nothing is reused; the FileResult carries the current stat values, which did_upload then records. did_upload_file: afterwards the record of the path holds exactly the given size/mtime/ctime and the fileid of the given cap (insert or update), so the record is always that of the most recent upload; the scenario did_upload_file -> check_file is proved end to end. check_directory: the lookup key is the hash of the canonical serialisation netstring(name)+netstring(cap) in name order (injective by C38 NetstringRT), a cap is returned only if the directories table has a row for exactly that key, and did_create_directory stores under that key.",
    "note": "The database is a ghost model: a cursor stub interpreting the 13 SQL statements the class issues (primary-key and UNIQUE constraints raise IntegrityError); any other SQL text makes the check undecided, not violated. One path / one cap row / up to two directory entries are symbolic, hence level 'other'. sqlite itself, os.stat and abspath_expanduser_unicode are trusted; the should_check probability (float arithmetic) is not claimed. tahoe_backup.py's use of the results is not under contract.",
    "technique": "contract-based deductive verification (pyvc VCs + z3) against a ghost relational state; number of rows bounded",
}
EXPLANATION = "Pre/postconditions of the real BackupDB_v2 methods over a ghost model of the four tables."
TRUSTED = ["SQL semantics of the 13 statements as modelled by the cursor stub", "os.stat / abspath_expanduser_unicode", "SHA-256 collision resistance for directory keys (backupdb_dirhash itself is under contract: DirHash)"]
ASSUMPTIONS = []
NOT_DECIDED = "tahoe_backup.py BackupProcessor (how the results are used), should_check probability."
F = "allmydata/scripts/backupdb.py"
PATH = "/abs/file"


def norm_sql(s):
    return re.sub(r"\s+", " ", s).strip()


class GhostDB(object):
    """local_files: {path: (size, mtime, ctime, fileid)}; caps: [(fileid, cap)]; last_upload: [(fileid, up, checked)];
    directories: [(dirhash, dircap, up, checked)] -- values may be symbolic, the row structure is concrete"""

    def __init__(self, I):
        self.I = I
        self.local_files = {}
        self.caps = []
        self.last_upload = []
        self.directories = []
        self.result = None
        self.log = []
        self.commits = 0

    def eq(self, a, b):
        from pyvc.models import values_equal
        r = values_equal(self.I, a, b)
        if isinstance(r, bool):
            return r
        return self.I.path.branch(r)

    def integrity(self):
        import sqlite3
        raise PyRaise(sqlite3.IntegrityError("constraint failed"), sqlite3.IntegrityError)

    def execute(self, I, a, kw):
        sql = norm_sql(a[0])
        p = tuple(a[1]) if len(a) > 1 else ()
        self.log.append((sql, p))
        if sql == "SELECT size,mtime,ctime,fileid FROM local_files WHERE path=?":
            self.result = self.local_files.get(p[0])
        elif sql == "SELECT caps.filecap, last_upload.last_checked FROM caps,last_upload WHERE caps.fileid=? AND last_upload.fileid=?":
            self.result = None
            for fid, cap in self.caps:
                if self.eq(fid, p[0]):
                    for fid2, up, chk in self.last_upload:
                        if self.eq(fid2, p[1]):
                            self.result = (cap, chk)
                            break
                    break
        elif sql == "DELETE FROM local_files WHERE path=?":
            self.local_files.pop(p[0], None)
        elif sql == "INSERT INTO caps (filecap) VALUES (?)":
            for fid, cap in self.caps:
                if self.eq(cap, p[0]):
                    self.integrity()
            nf = z3.Int(fresh_name("new_fileid"))
            for fid, cap in self.caps:
                I.path.assume(nf != Z(fid))
            self.caps.append((nf, p[0]))
        elif sql == "SELECT fileid FROM caps WHERE filecap=?":
            self.result = None
            for fid, cap in self.caps:
                if self.eq(cap, p[0]):
                    self.result = (fid,)
                    break
        elif sql == "INSERT INTO last_upload VALUES (?,?,?)":
            for fid, up, chk in self.last_upload:
                if self.eq(fid, p[0]):
                    self.integrity()
            self.last_upload.append((p[0], p[1], p[2]))
        elif sql == "UPDATE last_upload SET last_uploaded=?, last_checked=? WHERE fileid=?":
            self.last_upload = [((fid, p[0], p[1]) if self.eq(fid, p[2]) else (fid, up, chk)) for fid, up, chk in self.last_upload]
        elif sql == "UPDATE last_upload SET last_checked=? WHERE fileid=?":
            self.last_upload = [((fid, up, p[0]) if self.eq(fid, p[1]) else (fid, up, chk)) for fid, up, chk in self.last_upload]
        elif sql == "INSERT INTO local_files VALUES (?,?,?,?,?)":
            if p[0] in self.local_files:
                self.integrity()
            self.local_files[p[0]] = (p[1], p[2], p[3], p[4])
        elif sql == "UPDATE local_files SET size=?, mtime=?, ctime=?, fileid=? WHERE path=?":
            if p[4] in self.local_files:
                self.local_files[p[4]] = (p[0], p[1], p[2], p[3])
        elif sql == "SELECT dircap, last_checked FROM directories WHERE dirhash=?":
            self.result = None
            for dh, dc, up, chk in self.directories:
                if self.eq(dh, p[0]):
                    self.result = (dc, chk)
                    break
        elif sql == "REPLACE INTO directories VALUES (?,?,?,?)":
            self.directories = [r for r in self.directories if not self.eq(r[0], p[0])] + [tuple(p)]
        elif sql == "UPDATE directories SET last_checked=? WHERE dircap=?":
            self.directories = [((dh, dc, up, p[0]) if self.eq(dc, p[1]) else (dh, dc, up, chk)) for dh, dc, up, chk in self.directories]
        else:
            raise Undecided("SQL statement outside the ghost model: %r" % sql)
        return None

    def fetchone(self, I, a, kw):
        r, self.result = self.result, None
        return r

    def commit(self, I, a, kw):
        self.commits += 1

    def install(self, I, cls):
        import sqlite3
        cur = stub("cursor", execute=self.execute, fetchone=self.fetchone)
        conn = stub("connection", commit=self.commit, cursor=lambda I_, a, kw: cur)
        return SObj(cls, {"sqlite_module": sqlite3, "connection": conn, "cursor": cur})


def common_overrides():
    return {"overrides": {"fileutil.abspath_expanduser_unicode": lambda I, a, kw: a[0],
                          "Random.random": lambda I, a, kw: Opaque("random"),
                          "time.time": lambda I, a, kw: Opaque("now")}}


class _Native(object):
    """real sqlite database in a temp dir; os.stat of backupdb patched to return the wanted tuple"""

    def __init__(self, a):
        self.a = a

    def __enter__(self):
        import io, os, types
        import allmydata.scripts.backupdb as B
        self.B = B
        self.td = TempDir()
        d = self.td.__enter__()
        self.bdb = B.get_backupdb(os.path.join(d, "backup.sqlite"), stderr=io.StringIO())
        self.real_os, self.real_abs = B.os, B.abspath_expanduser_unicode
        a = self.a

        class FakeOS(object):
            path = os.path

            @staticmethod
            def stat(p):
                return (0o100644, 1, 1, 1, 0, 0, a["size"], 0, a["mtime"], a["ctime"])
        B.os = FakeOS
        B.abspath_expanduser_unicode = lambda p: p
        return self

    def __exit__(self, *e):
        self.B.os, self.B.abspath_expanduser_unicode = self.real_os, self.real_abs
        self.bdb.connection.close()
        self.td.__exit__(*e)


class CheckFile(Spec):
    file = F
    qualname = "BackupDB_v2.check_file"
    cross_check = 40
    raises = ()
    canary_case = {"has_row": True, "has_cap": True}

    def inputs(self):
        small = lambda r: r.choice([0, 1, 2, 1000])     # noqa
        return {"has_row": ChoiceK([False, True]), "has_cap": ChoiceK([False, True]), "use_ts": BoolK(),
                "size": IntK(0, rnd=small), "mtime": IntK(0, rnd=small), "ctime": IntK(0, rnd=small),
                "last_size": IntK(0, rnd=small), "last_mtime": IntK(0, rnd=small), "last_ctime": IntK(0, rnd=small),
                "fileid": IntK(1, rnd=lambda r: r.randint(1, 5))}

    def all_cases(self):
        return [{"has_row": r, "has_cap": c} for r in (False, True) for c in (False, True)]

    def config(self):
        c = common_overrides()
        me = self
        c["overrides"]["posix.stat"] = lambda I, a, kw: (0o100644, 1, 1, 1, 0, 0, me._a["size"], 0, me._a["mtime"], me._a["ctime"])
        c["concrete_overrides"] = c["overrides"]
        return c

    def run(self, I, a):
        self._a = a
        db = GhostDB(I)
        if a["has_row"]:
            db.local_files[PATH] = (a["last_size"], a["last_mtime"], a["last_ctime"], a["fileid"])
        if a["has_cap"]:
            db.caps.append((a["fileid"], "URI:CHK:recorded"))
            db.last_upload.append((a["fileid"], Opaque("up"), Opaque("chk")))
        bdb = db.install(I, self.module().BackupDB_v2)
        out = Outcome("return", I.call_value(self.target(I), [bdb, PATH, a["use_ts"]], {}))
        out.post = {"db": db}
        return out

    def native(self, a):
        with _Native(a) as n:
            c = n.bdb.cursor
            if a["has_row"]:
                c.execute("INSERT INTO local_files VALUES (?,?,?,?,?)", (PATH, a["last_size"], a["last_mtime"], a["last_ctime"], a["fileid"]))
            if a["has_cap"]:
                c.execute("INSERT INTO caps VALUES (?,?)", (a["fileid"], "URI:CHK:recorded"))
                c.execute("INSERT INTO last_upload VALUES (?,?,?)", (a["fileid"], 0, 0))
            n.bdb.connection.commit()
            out = native_outcome(lambda: n.bdb.check_file(PATH, a["use_ts"]))
            c.execute("SELECT size,mtime,ctime,fileid FROM local_files WHERE path=?", (PATH,))
            out.post = {"row_after": c.fetchone()}
            return out

    def same_result(self, n, s):
        from pyvc.runner import plainify
        return bool(n.value.filecap) == bool(field(s.value, "filecap"))

    def ensures(self, I, a, out):
        r = out.value
        cap = field(r, "filecap")
        reuse = bool(cap)
        same = z3.And(Z(a["last_size"]) == Z(a["size"]), Z(a["last_mtime"]) == Z(a["mtime"]), Z(a["last_ctime"]) == Z(a["ctime"]))
        ok = z3.And(z3.BoolVal(a["has_row"] and a["has_cap"]), to_z3_bool(a["use_ts"]), same)
        row_after = out.post["row_after"] if I is None else out.post["db"].local_files.get(PATH)
        g = [("reuse-only-when-size-mtime-ctime-match-the-record-and-timestamps-are-trusted", ok if reuse else z3.BoolVal(True)),
             ("an-unchanged-recorded-file-is-reused", z3.BoolVal(True) if reuse else z3.Not(ok)),
             ("reused-cap-is-the-recorded-cap", z3.BoolVal((not reuse) or cap == b"URI:CHK:recorded")),
             ("result-carries-the-current-size", Z(field(r, "size")) == Z(a["size"])),
             ("result-carries-the-current-mtime", Z(field(r, "mtime")) == Z(a["mtime"])),
             ("result-carries-the-current-ctime", Z(field(r, "ctime")) == Z(a["ctime"])),
             ("result-carries-the-path", z3.BoolVal(field(r, "path") == PATH)),
             ("a-stale-record-is-dropped", z3.BoolVal(reuse or row_after is None))]
        return g

    def canary(self, I, a, out):
        return [("canary", z3.BoolVal(not field(out.value, "filecap")))]


def field(o, name):
    return o.fields[name] if isinstance(o, SObj) else getattr(o, name)


class DidUploadThenCheck(Spec):
    """did_upload_file(cap, path, m1, c1, s1) on ANY prior state of the path, then check_file(path) with stat (s2, m2, c2):
    the cap is reused only if (s1, m1, c1) == (s2, m2, c2), and it is the cap just recorded"""
    file = F
    qualname = "BackupDB_v2.did_upload_file"
    cross_check = 40
    raises = ()
    canary_case = {"had_row": True, "had_cap": "other"}

    def inputs(self):
        small = lambda r: r.choice([0, 1, 2])     # noqa
        return {"had_row": ChoiceK([False, True]), "had_cap": ChoiceK(["none", "same", "other"]),
                "s1": IntK(0, rnd=small), "m1": IntK(0, rnd=small), "c1": IntK(0, rnd=small),
                "size": IntK(0, rnd=small), "mtime": IntK(0, rnd=small), "ctime": IntK(0, rnd=small),
                "old_size": IntK(0, rnd=small), "old_mtime": IntK(0, rnd=small), "old_ctime": IntK(0, rnd=small),
                "fileid": IntK(1, rnd=lambda r: r.randint(1, 5))}

    def all_cases(self):
        return [{"had_row": r, "had_cap": c} for r in (False, True) for c in ("none", "same", "other")]

    def config(self):
        c = common_overrides()
        me = self
        c["overrides"]["posix.stat"] = lambda I, a, kw: (0o100644, 1, 1, 1, 0, 0, me._a["size"], 0, me._a["mtime"], me._a["ctime"])
        c["concrete_overrides"] = c["overrides"]
        return c

    def run(self, I, a):
        self._a = a
        db = GhostDB(I)
        if a["had_row"]:
            db.local_files[PATH] = (a["old_size"], a["old_mtime"], a["old_ctime"], a["fileid"])
        if a["had_cap"] != "none":
            db.caps.append((a["fileid"], "URI:CHK:new" if a["had_cap"] == "same" else "URI:CHK:old"))
            db.last_upload.append((a["fileid"], Opaque("up"), Opaque("chk")))
        bdb = db.install(I, self.module().BackupDB_v2)
        I.call_value(self.target(I), [bdb, "URI:CHK:new", PATH, a["m1"], a["c1"], a["s1"]], {})
        row = db.local_files.get(PATH)
        commits = db.commits
        r = I.call_value(I.get_attr(bdb, "check_file"), [PATH], {})
        out = Outcome("return", r)
        out.post = {"row": row, "commits": commits, "db": db}
        return out

    def native(self, a):
        with _Native(a) as n:
            c = n.bdb.cursor
            if a["had_row"]:
                c.execute("INSERT INTO local_files VALUES (?,?,?,?,?)", (PATH, a["old_size"], a["old_mtime"], a["old_ctime"], a["fileid"]))
            if a["had_cap"] != "none":
                c.execute("INSERT INTO caps VALUES (?,?)", (a["fileid"], "URI:CHK:new" if a["had_cap"] == "same" else "URI:CHK:old"))
                c.execute("INSERT INTO last_upload VALUES (?,?,?)", (a["fileid"], 0, 0))
            n.bdb.connection.commit()

            def f():
                n.bdb.did_upload_file("URI:CHK:new", PATH, a["m1"], a["c1"], a["s1"])
                c.execute("SELECT size,mtime,ctime,fileid FROM local_files WHERE path=?", (PATH,))
                row = c.fetchone()
                return n.bdb.check_file(PATH), row
            out = native_outcome(f)
            if out.kind == "return":
                out.value, row = out.value
                out.post = {"row": row, "commits": 1}
            return out

    def same_result(self, n, s):
        return bool(n.value.filecap) == bool(field(s.value, "filecap"))

    def ensures(self, I, a, out):
        r = out.value
        cap = field(r, "filecap")
        reuse = bool(cap)
        row = out.post["row"]
        same = z3.And(Z(a["s1"]) == Z(a["size"]), Z(a["m1"]) == Z(a["mtime"]), Z(a["c1"]) == Z(a["ctime"]))
        g = [("upload-is-recorded", z3.BoolVal(row is not None))]
        if row is not None:
            g += [("record-holds-the-uploaded-size", Z(row[0]) == Z(a["s1"])),
                  ("record-holds-the-uploaded-mtime", Z(row[1]) == Z(a["m1"])),
                  ("record-holds-the-uploaded-ctime", Z(row[2]) == Z(a["c1"]))]
        g += [("upload-is-committed", z3.BoolVal(out.post["commits"] >= 1)),
              ("reuse-after-upload-only-if-nothing-changed-since-that-upload", same if reuse else z3.BoolVal(True)),
              ("unchanged-since-the-upload-means-reuse", z3.BoolVal(True) if reuse else z3.Not(same)),
              ("reused-cap-is-the-cap-of-the-most-recent-upload", z3.BoolVal((not reuse) or cap == b"URI:CHK:new"))]
        return g

    def canary(self, I, a, out):
        return [("canary", z3.BoolVal(not field(out.value, "filecap")))]


HF = z3.Function("backupdb_dirhash", z3.StringSort(), SHash.SORT)


def spec_netstring(v):
    t = as_sstr(v).term
    if isinstance(v, bytes):
        return z3.StringVal("%d:%s," % (len(v), v.decode("latin-1")))
    return z3.Concat(z3.IntToStr(z3.Length(t)), z3.StringVal(":"), t, z3.StringVal(","))


class CheckDirectory(Spec):
    """check_directory(contents): key = H(netstring(name)+netstring(cap) for names in sorted order); reuse only when the
    directories table has a row for exactly that key; the result remembers the key for did_create"""
    file = F
    qualname = "BackupDB_v2.check_directory"
    level = "B"
    bound = "0..3 children with concrete distinct names in every insertion order (caps symbolic byte strings)"
    cross_check = 30
    raises = ()
    canary_case = {"names": ("b", "a"), "row": "same"}

    def inputs(self):
        d = {"names": ChoiceK([()]), "row": ChoiceK(["none", "same", "other"])}
        for n in ("a", "b", "c1:x,"):
            d["cap_" + n] = StrK(True, rndmax=12)
        return d

    def all_cases(self):
        import itertools
        names = ("a", "b", "c1:x,")
        out = []
        for k in range(0, 4):
            for perm in itertools.permutations(names, k):
                if k == 3 and perm not in (("a", "b", "c1:x,"), ("c1:x,", "b", "a"), ("b", "c1:x,", "a")):
                    continue
                for row in ("none", "same", "other"):
                    out.append({"names": perm, "row": row})
        return out

    def config(self):
        c = common_overrides()
        me = self

        def dirhash(I, a, kw):
            me._hashed.append(a[0])
            return SHash(HF(as_sstr(a[0]).term))
        c["concrete_overrides"] = dict(c["overrides"])
        c["overrides"]["hashutil.backupdb_dirhash"] = dirhash
        c["overrides"]["base32.b2a"] = lambda I, a, kw: a[0]
        c["rope"] = True
        c["atoms"] = {"cap_" + n: (None, 0) for n in ("a", "b", "c1:x,")}
        return c

    def expected(self, a):
        parts = []
        for n in sorted(a["names"], key=lambda n: n.encode("utf-8")):
            parts += [spec_netstring(n.encode("utf-8")), spec_netstring(a["cap_" + n])]
        return z3.simplify(z3.Concat(*parts)) if len(parts) > 1 else (parts[0] if parts else z3.StringVal(""))

    def run(self, I, a):
        self._hashed = []
        db = GhostDB(I)
        if "hashutil.backupdb_dirhash" not in I.overrides:       # concrete cross-check run: real hashes
            import allmydata.scripts.backupdb as B
            from allmydata.util import base32
            want = b"".join(b"%d:%s,%d:%s," % (len(n.encode()), n.encode(), len(a["cap_" + n]), a["cap_" + n]) for n in sorted(a["names"], key=lambda n: n.encode("utf-8")))
            if a["row"] != "none":
                db.directories.append((base32.b2a(B.backupdb_dirhash(want + (b"" if a["row"] == "same" else b"x"))),
                                       "URI:DIR2-CHK:recorded" if a["row"] == "same" else "URI:DIR2-CHK:else", 0, 0))
        elif a["row"] == "same":
            db.directories.append((SHash(HF(self.expected(a))), "URI:DIR2-CHK:recorded", Opaque("up"), Opaque("chk")))
        elif a["row"] == "other":
            db.directories.append((SHash(z3.Const("other_hash", SHash.SORT)), "URI:DIR2-CHK:else", Opaque("up"), Opaque("chk")))
            I.path.assume(z3.Const("other_hash", SHash.SORT) != HF(self.expected(a)))
        bdb = db.install(I, self.module().BackupDB_v2)
        contents = {}
        for n in a["names"]:
            contents[n] = a["cap_" + n]
        out = Outcome("return", I.call_value(self.target(I), [bdb, contents], {}))
        out.post = {"db": db, "hashed": list(self._hashed)}
        return out

    def native(self, a):
        import hashlib
        import allmydata.scripts.backupdb as B
        from allmydata.util import base32
        contents = {n: a["cap_" + n] for n in a["names"]}
        want = b"".join(b"%d:%s,%d:%s," % (len(n.encode()), n.encode(), len(contents[n]), contents[n]) for n in sorted(contents, key=lambda n: n.encode("utf-8")))
        with _Native({"size": 0, "mtime": 0, "ctime": 0}) as nat:
            key = base32.b2a(B.backupdb_dirhash(want))
            if a["row"] == "same":
                nat.bdb.did_create_directory("URI:DIR2-CHK:recorded", key)
            elif a["row"] == "other":
                nat.bdb.did_create_directory("URI:DIR2-CHK:else", base32.b2a(B.backupdb_dirhash(want + b"x")))
            hashed = []
            real = B.backupdb_dirhash
            B.backupdb_dirhash = lambda d: (hashed.append(d), real(d))[1]
            try:
                out = native_outcome(lambda: nat.bdb.check_directory(contents))
            finally:
                B.backupdb_dirhash = real
            out.post = {"hashed": hashed, "want": want, "key": key}
            return out

    def same_result(self, n, s):
        return bool(n.value.dircap) == bool(field(s.value, "dircap"))

    def ensures(self, I, a, out):
        r = out.value
        hashed = out.post["hashed"]
        cap = field(r, "dircap")
        reuse = bool(cap)
        if I is None:
            return [("exactly-one-serialisation-is-hashed", z3.BoolVal(len(hashed) == 1)),
                    ("key-is-the-hash-of-the-canonical-netstring-serialisation-in-name-order", z3.BoolVal(hashed[:1] == [out.post["want"]])),
                    ("reuse-only-when-a-row-exists-for-exactly-this-key", z3.BoolVal((not reuse) or a["row"] == "same")),
                    ("a-recorded-directory-is-reused", z3.BoolVal(reuse or a["row"] != "same")),
                    ("reused-cap-is-the-recorded-cap", z3.BoolVal((not reuse) or cap == b"URI:DIR2-CHK:recorded")),
                    ("result-remembers-the-key", z3.BoolVal(r.dirhash == out.post["key"]))]
        g = [("exactly-one-serialisation-is-hashed", z3.BoolVal(len(hashed) == 1))]
        if len(hashed) == 1:
            g.append(("key-is-the-hash-of-the-canonical-netstring-serialisation-in-name-order", as_sstr(hashed[0]).term == self.expected(a)))
        dh = field(r, "dirhash")
        g += [("reuse-only-when-a-row-exists-for-exactly-this-key", z3.BoolVal((not reuse) or a["row"] == "same")),
              ("a-recorded-directory-is-reused", z3.BoolVal(reuse or a["row"] != "same")),
              ("reused-cap-is-the-recorded-cap", z3.BoolVal((not reuse) or cap == b"URI:DIR2-CHK:recorded")),
              ("result-remembers-the-key", (dh.term == HF(self.expected(a))) if isinstance(dh, SHash) else z3.BoolVal(False))]
        return g

    def canary(self, I, a, out):
        return [("canary", z3.BoolVal(not field(out.value, "dircap")))]


class DidCreateDirectory(Spec):
    """did_create_directory(dircap, key): afterwards exactly one row has this key and it holds this dircap (replace)"""
    file = F
    qualname = "BackupDB_v2.did_create_directory"
    cross_check = 0
    raises = ()

    def inputs(self):
        return {"had": ChoiceK(["none", "same", "other"])}

    def all_cases(self):
        return [{"had": h} for h in ("none", "same", "other")]

    def config(self):
        return common_overrides()

    def run(self, I, a):
        db = GhostDB(I)
        key = SHash(z3.Const("key", SHash.SORT))
        other = SHash(z3.Const("otherkey", SHash.SORT))
        I.path.assume(key.term != other.term)
        if a["had"] == "same":
            db.directories.append((key, "URI:DIR2-CHK:old", Opaque("u"), Opaque("c")))
        if a["had"] == "other":
            db.directories.append((other, "URI:DIR2-CHK:else", Opaque("u"), Opaque("c")))
        bdb = db.install(I, self.module().BackupDB_v2)
        I.call_value(self.target(I), [bdb, "URI:DIR2-CHK:new", key], {})
        out = Outcome("return", None)
        out.post = {"db": db, "key": key, "other": other}
        return out

    def ensures(self, I, a, out):
        db = out.post["db"]
        mine = [r for r in db.directories if r[0] is out.post["key"]]
        others = [r for r in db.directories if r[0] is out.post["other"]]
        return [("exactly-one-row-for-the-key", z3.BoolVal(len(mine) == 1)),
                ("row-holds-the-new-dircap", z3.BoolVal(len(mine) == 1 and mine[0][1] == "URI:DIR2-CHK:new")),
                ("other-directories-are-untouched", z3.BoolVal(len(others) == (1 if a["had"] == "other" else 0) and all(r[1] == "URI:DIR2-CHK:else" for r in others))),
                ("committed", z3.BoolVal(db.commits >= 1))]

    def canary(self, I, a, out):
        return [("canary", z3.BoolVal(len(out.post["db"].directories) == 0))]


def backup_history_failures(seed, nhist):
    """native run-time contract with the real BackupDB_v2 on a real sqlite file: seeded histories of backup runs (each run
    opens the database anew) over 4 paths whose contents are edited, touched, swapped for identical copies or left alone;
    whenever check_file offers a cap it must be the cap of THAT path's most recent upload and the file's size/mtime/ctime must
    be what was recorded then"""
    import hashlib
    import os
    import random
    import shutil
    import tempfile
    from io import StringIO
    from allmydata.scripts import backupdb
    rng = random.Random(seed)
    bad, n = [], 0
    for h in range(nhist):
        d = tempfile.mkdtemp(prefix="verifbackup.")
        try:
            paths = [os.path.join(d, "f%d" % i) for i in range(4)]
            clock = [1000000000]
            model = {}          # path -> (cap, (size, mtime, ctime)) of the most recent upload
            history = []

            def write(p, content):
                with open(p, "wb") as f:
                    f.write(content)
                clock[0] += rng.choice([1, 1, 60])
                os.utime(p, (clock[0], clock[0]))
            for p in paths:
                write(p, b"contents-%d" % rng.randrange(3))
            for run in range(rng.randint(2, 5)):
                for p in paths:
                    ev = rng.choice(["none", "none", "edit", "same-size-edit", "copy-of-other", "touch"])
                    if ev == "edit":
                        write(p, b"contents-%d-%d" % (rng.randrange(3), rng.randrange(1000)))
                    elif ev == "same-size-edit":
                        old = open(p, "rb").read()
                        write(p, bytes((b + 1) % 256 for b in old))
                    elif ev == "copy-of-other":
                        write(p, open(rng.choice(paths), "rb").read())
                    elif ev == "touch":
                        write(p, open(p, "rb").read())
                    history.append((run, os.path.basename(p), ev))
                db = backupdb.get_backupdb(os.path.join(d, "backupdb.sqlite"), stderr=StringIO())
                order = list(paths)
                rng.shuffle(order)
                for p in order:
                    n += 1
                    st = os.stat(p)
                    r = db.check_file(p)
                    offered = r.was_uploaded()
                    content = open(p, "rb").read()
                    truecap = b"URI:CHK:" + hashlib.sha256(content).hexdigest().encode("ascii")       # a convergent grid: same bytes, same cap
                    if offered:
                        rec = model.get(p)
                        ok = rec is not None and offered == rec[0] and rec[1] == (st.st_size, st.st_mtime, st.st_ctime)
                        if not ok:
                            bad.append({"history": history[-10:], "path": os.path.basename(p), "offered": offered.decode("ascii")[-12:] if isinstance(offered, bytes) else str(offered)[-12:],
                                        "most_recent_upload_of_this_path": (rec[0].decode("ascii")[-12:] if rec else None), "contents_now_hash": truecap.decode("ascii")[-12:]})
                    else:
                        r.did_upload(truecap)
                        model[p] = (truecap, (st.st_size, st.st_mtime, st.st_ctime))
                del db
        finally:
            shutil.rmtree(d, ignore_errors=True)
    return bad, n


def extra_checks(rep, tier):
    bad, n = backup_history_failures(rep.seed * 13 + 5, 60 if tier == "quick" else 1500)
    name = "BackupHistories:a-cap-is-offered-only-from-the-record-of-that-paths-most-recent-upload-with-unchanged-size-and-times"
    rep.obligations += 1
    rep.bounded_obligations += 1
    rep.paths += n
    rep.sym_paths += n
    rep.bounds.append("backup histories: %d check_file decisions over seeded histories of 2..5 runs x 4 paths (edit / same-size edit / copy of another file / touch / nothing), real sqlite, one connection per run" % n)
    if not bad:
        rep.discharged += 1
        rep.discharged_names.add(name)
        return
    rep.violations.append({"property": "C42", "contract": "BackupHistories", "obligation": name, "status": "runtime", "inputs": bad[0],
                           "native_outcome": "%d of %d decisions offer a cap that is not this path's most recent upload; first: %r" % (len(bad), n, bad[0]), "confirmed_on_real_code": True})


def _dirhash_spec():
    """hashutil.backupdb_dirhash, stubbed as the uninterpreted HF in CheckDirectory, is put under contract itself: it is
    SHA256d(netstring(b"allmydata_backupdb_dirhash_v1") + contents), i.e. a function of exactly the packed contents, so
    "same key => same contents" rests only on SHA-256 collision resistance (listed under TRUSTED)"""
    from contracts import C17

    class DirHash(C17.Tagged):
        TAG = b"allmydata_backupdb_dirhash_v1"

        def spec_term(self, a):
            return C17.tagged(C17.zs(self.TAG), C17.T(a["a0"]), 32)

        def reference(self, a):
            return C17.ref_d(C17.ref_ns(self.TAG) + a["a0"], 32)
    return DirHash("backupdb_dirhash")


def contracts(tier):
    return [CheckFile(), DidUploadThenCheck(), CheckDirectory(), DidCreateDirectory(), _dirhash_spec()]
