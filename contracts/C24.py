"""C24 Read-test-write is atomic and guarded by the write enabler -- contracts on storage/server.py and MutableShareFile.check_write_enabler"""
import os
import z3
from pyvc.harness import Spec, IntK, BoolK, BytesArrK, ChoiceK, Outcome
from pyvc.interp import ModelFn
from pyvc.values import *  # noqa
from pyvc.models_ext2 import PathTok, FileState
from contracts.lib import *  # noqa

LEVEL = "other"
MANIFEST_ENTRY = {
    "text": "slot_testv_and_readv_and_writev and its four helpers are executed symbolically against share objects that obey the C23 contracts (test results, enabler match and new lengths are unconstrained symbols): the enabler is checked on EVERY existing share before anything else, a bad enabler or a failing test leaves every share untouched, on success every named share gets exactly its write vector (or is deleted for new_length 0) and no other share is touched, and all reads are taken before the first write. Request shape is bounded (share numbers 0..2, <=2 existing shares), hence level 'other'. check_write_enabler itself is proved for all files and secrets.",
    "note": "Bound: existing shares subset of {0,1}; named shares subset of {0,1,2}; per-share test vectors/write vectors are opaque values handed through to the share objects (their semantics is C23). Under the precondition that no share-level writev raises (C23: offset+len <= MAX_SIZE), no exception can interrupt the write phase. MutableShareFile construction/creation is a stub returning the share object for that path.",
    "technique": "contract-based deductive verification (pyvc VCs + z3) with call-log ghost state; request shape bounded",
}
MANIFEST_ENTRY["text"] += " Bounded end-to-end stand-in (run-time contract, never counted as proved): contracts/grid_http.py drives the real StorageServer through seeded histories (allocate, chunked/overlapping/conflicting/overrunning writes, abort, 31-minute timeout, reads, leases, read-test-write with failing tests, truncation, deletion, wrong write enabler) and compares it after every operation with a plain byte-array model: visible shares, bytes, space reserved for uploads in progress, mutable slots."
MANIFEST_ENTRY["technique"] = MANIFEST_ENTRY.get("technique", "contract-based deductive verification: pre/postconditions on the real functions, VCs generated from the AST, discharged by z3/cvc5") + "; plus a bounded run-time contract: the real StorageServer against a byte-array model over seeded histories (stand-in, labelled bounded)"
EXPLANATION = "Protocol-level contract over the real StorageServer code with share objects abstracted by their contracts."
TRUSTED = ["timing_safe_compare(a,b) <=> a == b is the callee contract used at call sites; it is discharged on the real body by TimingSafeCompare (contracts/tsc.py) under SHA-256 collision resistance (explicit cryptographic hypothesis, instantiated) and os.urandom(32) returning 32 bytes", "os.listdir/os.path.isdir report exactly the modelled share files (plus one non-numeric junk name)"]
ASSUMPTIONS = ["termination not proved", "share-level writev does not raise (valid request, see C23)"]
NOT_DECIDED = "interleaving of several requests (C12), lease renewal details (C25)."
F = "allmydata/storage/server.py"
SI = b"\x02" * 16


class SlotTestvReadvWritev(Spec):
    file = F
    qualname = "StorageServer.slot_testv_and_readv_and_writev"
    level = "B"
    bound = "existing shares subset of {0,1}; named shares subset of {0,1,2}; enabler/test outcomes and new lengths symbolic"
    cross_check = 0
    canary_case = {"e0": True, "e1": False, "n0": True, "n1": False, "n2": False, "nl_none": False, "renew": True}

    @property
    def raises(self):
        from allmydata.interfaces import BadWriteEnablerError
        return (BadWriteEnablerError,)

    def inputs(self):
        d = {k: ChoiceK([False, True]) for k in ("e0", "e1", "n0", "n1", "n2", "nl_none", "renew")}
        d.update({"ok0": BoolK(), "ok1": BoolK(), "t0": BoolK(), "t1": BoolK(), "nl0": IntK(0), "nl1": IntK(0), "nl2": IntK(0),
                  "spec2_empty": BoolK()})
        return d

    def all_cases(self):
        cs = []
        for e0 in (False, True):
            for e1 in (False, True):
                for n0 in (False, True):
                    for n1 in (False, True):
                        for n2 in (False, True):
                            for nn in (False, True):
                                cs.append({"e0": e0, "e1": e1, "n0": n0, "n1": n1, "n2": n2, "nl_none": nn, "renew": (e0 != n1)})
        return cs

    def bucketdir(self):
        from allmydata.storage.common import storage_index_to_dir
        return "shares/" + storage_index_to_dir(SI)

    def config(self):
        me = self

        def new_msf(I, a, kw):
            key = a[0] if isinstance(a[0], str) else a[0].name
            return me._shares[int(key.rsplit("/", 1)[1])]

        def create_msf(I, a, kw):
            key = a[0] if isinstance(a[0], str) else a[0].name
            num = int(key.rsplit("/", 1)[1])
            me._log.append(("create", num))
            me._exists.add(num)
            return me._shares[num]

        def listdir(I, key):
            return ["%d" % i for i in sorted(me._exists)] + ["junk.tmp"]
        ov = {"mutable.MutableShareFile": new_msf, "mutable.create_mutable_sharefile": create_msf, "StorageServer.count": noop,
              "StorageServer.add_latency": noop, "StorageServer.log": noop, "StorageServer.get_available_space": lambda I, a, kw: 10 ** 9,
              "lease.LeaseInfo": lambda I, a, kw: Opaque("lease_info")}
        def rm_dir(I, key):
            # recursive removal of the bucket directory destroys every share file still in it
            for i in sorted(me._exists):
                me._log.append(("unlink", i))
            me._exists.clear()
            me._log.append(("rm_dir", key))
        return {"overrides": ov, "listdir": listdir, "isdir": lambda I, key: bool(me._exists),
                "rmdir": lambda I, key: me._log.append(("rmdir", key)), "rm_dir": rm_dir}

    def run(self, I, a):
        from allmydata.interfaces import BadWriteEnablerError
        self._log = log = []
        self._exists = set(i for i in (0, 1) if a["e%d" % i])
        me = self

        def mk(i):
            def cwe(I_, args, kw):
                log.append(("check_enabler", i))
                ok = a.get("ok%d" % i, True)
                if not I_.truthy(ok):
                    raise PyRaise(SObj(BadWriteEnablerError, {"args": ()}))

            def testv(I_, args, kw):
                log.append(("testv", i, args[0]))
                return a.get("t%d" % i, True)

            def readv(I_, args, kw):
                log.append(("readv", i))
                return "data-of-%d-before" % i

            def writev(I_, args, kw):
                log.append(("writev", i, args[0], args[1]))

            def unlink(I_, args, kw):
                log.append(("unlink", i))
                me._exists.discard(i)

            def lease(I_, args, kw):
                log.append(("lease", i))
            return stub("share%d" % i, check_write_enabler=cwe, check_testv=testv, readv=readv, writev=writev, unlink=unlink,
                        add_or_renew_lease=lease)
        self._shares = {i: mk(i) for i in (0, 1, 2)}
        I.disk[self.bucketdir() + "/x"] = FileState(z3.K(IntS, z3.IntVal(0)), 0, True)
        ss = SObj(self.module().StorageServer, {"_clock": stub("clock", seconds=lambda I_, a_, k_: z3.Int(fresh_name("now"))),
                                                "sharedir": "shares", "my_nodeid": b"n" * 20})
        tw = {}
        for i in (0, 1, 2):
            if a["n%d" % i]:
                # share 2 never exists: its test vector is compared with an empty share by the real EmptyShare
                testv = [(0, 1, b"eq", b"")] if i == 2 else ("testv%d" % i if a["e%d" % i] else [])
                if i == 2 and not a["nl_none"]:
                    testv = [(0, 1, b"eq", SBytes(z3.K(IntS, z3.IntVal(7)), z3.If(a["spec2_empty"], 0, 1)))]
                tw[i] = (testv, "datav%d" % i, None if a["nl_none"] else a["nl%d" % i])
        try:
            r = I.call_value(self.target(I), [ss, SI, (b"we" * 16, b"r" * 32, b"c" * 32), tw, [(0, 10)], a["renew"]], {})
            out = Outcome("return", r)
        except PyRaise as pr:
            out = Outcome("raise", exc=pr.exc, exc_cls=pr.cls)
        out.post = {"log": list(log), "exists_before": set(i for i in (0, 1) if a["e%d" % i]), "tw": tw}
        return out

    def ensures(self, I, a, out):
        log, exists, tw = out.post["log"], out.post["exists_before"], out.post["tw"]
        mut = [e for e in log if e[0] in ("writev", "unlink", "create", "lease", "rmdir")]
        first_mut = min([k for k, e in enumerate(log) if e[0] in ("writev", "unlink", "create")] or [len(log)])
        checks = [e[1] for e in log if e[0] == "check_enabler"]
        oks = [a["ok%d" % i] for i in sorted(exists)]
        all_ok = z3.And([z3.BoolVal(o) if isinstance(o, bool) else o for o in oks]) if oks else z3.BoolVal(True)
        if out.kind == "raise":
            return [("bad-enabler-only-if-some-existing-share-mismatches", z3.Not(all_ok)),
                    ("bad-enabler-leaves-every-share-untouched", z3.BoolVal(not mut and not any(e[0] in ("readv", "testv") for e in log)))]
        good, read_data = out.value
        tests = []
        for i in sorted(tw):
            if i in exists:
                tests.append(a["t%d" % i])
            elif i == 2 and not a["nl_none"]:
                tests.append(a["spec2_empty"])       # empty share: passes iff the specimen is empty
            elif i == 2:
                tests.append(True)
            else:
                tests.append(True if tw[i][0] == [] else None)
        # shares 0/1 named but missing carry an opaque testv string: EmptyShare iterates it -> handled below
        exp_good = z3.And([z3.BoolVal(t) if isinstance(t, bool) else t for t in tests if t is not None]) if tests else z3.BoolVal(True)
        g = [("enabler-checked-on-every-existing-share-first", z3.BoolVal(sorted(checks) == sorted(exists) and all(e[0] == "check_enabler" for e in log[:len(exists)]))),
             ("all-enablers-matched", all_ok),
             ("reads-taken-before-any-write", z3.BoolVal(all(k < first_mut for k, e in enumerate(log) if e[0] == "readv"))),
             ("read-data-is-pre-state-of-every-existing-share", z3.BoolVal(dict(read_data) == {i: "data-of-%d-before" % i for i in exists}))]
        gb = z3.BoolVal(good) if isinstance(good, bool) else good
        if None not in tests:
            g.append(("result-iff-all-tests-pass", gb == exp_good))
        # what was written
        writes = {e[1]: e for e in log if e[0] == "writev"}
        unlinks = [e[1] for e in log if e[0] == "unlink"]
        creates = [e[1] for e in log if e[0] == "create"]
        touched = set(writes) | set(unlinks) | set(creates)
        g.append(("nothing-applied-when-tests-fail", z3.Implies(z3.Not(gb), z3.BoolVal(not mut))))
        g.append(("only-named-shares-are-touched", z3.BoolVal(touched <= set(tw))))
        per = []
        for i in sorted(tw):
            nl = tw[i][2]
            is_zero = z3.BoolVal(False) if nl is None else (Z(nl) == 0)
            wrote = z3.BoolVal(i in writes and writes[i][2] == tw[i][1] and (writes[i][3] is nl))
            deleted = z3.BoolVal((i in unlinks) == (i in exists) and i not in writes and i not in creates)
            created_ok = z3.BoolVal((i in creates) == (i not in exists))
            per.append(z3.Implies(gb, z3.If(is_zero, deleted, z3.And(wrote, created_ok))))
        g.append(("every-named-share-gets-exactly-its-write-vector-or-is-deleted", z3.And(per) if per else z3.BoolVal(True)))
        leases = sorted(e[1] for e in log if e[0] == "lease")
        g.append(("leases-only-on-remaining-written-shares-when-asked", z3.BoolVal(leases == (sorted(writes) if a["renew"] else []))))
        return g

    def canary(self, I, a, out):
        good = out.value[0]
        return [("canary", z3.BoolVal(good) if isinstance(good, bool) else good)]


def gen_container(rng):
    from contracts.C23 import gen_container as g
    return g(rng)


class CheckWriteEnabler(Spec):
    """MutableShareFile.check_write_enabler: returns normally iff the presented enabler equals the 32 bytes stored at
    offset 52; otherwise BadWriteEnablerError; the file is not modified."""
    file = "allmydata/storage/mutable.py"
    qualname = "MutableShareFile.check_write_enabler"
    cross_check = 30

    @property
    def raises(self):
        from allmydata.interfaces import BadWriteEnablerError
        return (BadWriteEnablerError,)

    def inputs(self):
        return {"file0": FileK(gen_container), "enabler": BytesArrK(fixed=32)}

    def requires(self, I, a):
        from contracts.C23 import WF
        c, n = as_arr(a["file0"])
        return z3.And(WF(c, n), n >= 100)

    def config(self):
        ov = {"MutableShareFile.is_valid_header": lambda I, a, kw: True, "MutableShareFile.log": noop,
              "idlib.nodeid_b2a": lambda I, a, kw: Opaque("nodeid")}
        return {"overrides": ov, "concrete_overrides": ov}

    def run(self, I, a):
        put_file(I, "home", a["file0"])
        ms = SObj(self.module().MutableShareFile, {"home": PathTok("home")})
        try:
            out = Outcome("return", I.call_value(self.target(I), [ms, a["enabler"], b"si"], {}))
        except PyRaise as pr:
            out = Outcome("raise", exc=pr.exc, exc_cls=pr.cls)
        out.post = {"file": file_post(I, "home")}
        return out

    def native(self, a):
        from allmydata.storage.mutable import MutableShareFile
        with TempDir() as d:
            p = os.path.join(d, "share")
            with open(p, "wb") as fh:
                fh.write(a["file0"])
            ms = object.__new__(MutableShareFile)
            ms.home = p
            ms.log = lambda *x, **k: None
            out = native_outcome(lambda: ms.check_write_enabler(a["enabler"], b"si"))
            out.post = {"file": open(p, "rb").read()}
            return out

    def ensures(self, I, a, out):
        c, n = as_arr(a["file0"])
        c1, n1 = as_arr(out.post["file"])
        e, _ = as_arr(a["enabler"])
        match = z3.And([z3.Select(e, k) == z3.Select(c, 52 + k) for k in range(32)])
        return [("accepted-iff-enabler-equals-stored-enabler", match if out.kind == "return" else z3.Not(match)),
                ("file-unchanged", same_file(c, n, c1, n1))]

    def canary(self, I, a, out):
        return [("canary", z3.BoolVal(False))]

    def same_result(self, n, s):
        return True


def extra_checks(rep, tier):
    from contracts import grid_http
    grid_http.grid_check(rep, tier, "C24")


def contracts(tier):
    # "applies none if any test fails" also depends on the share-level test-vector evaluation (C23 contracts)
    from contracts.C23 import CheckTestV, EmptyShareCheckTestV
    # the write-enabler and lease-secret comparisons go through hashutil.timing_safe_compare: its callee contract is discharged here
    from contracts.tsc import TimingSafeCompare
    return [SlotTestvReadvWritev(), CheckWriteEnabler(), CheckTestV(), EmptyShareCheckTestV(), TimingSafeCompare()]
