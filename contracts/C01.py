"""C01 Immutable upload/download round-trip -- geometry contracts (upload.py, encode.py, codec.py, downloader/node.py)"""
import z3
from pyvc.harness import Spec, IntK, ChoiceK, Outcome
from pyvc.interp import Closure, Env, find_def
from pyvc.values import *  # noqa
from contracts.lib import *  # noqa

LEVEL = "proof"
MANIFEST_ENTRY = {
    "text": "Unbounded proof (all file sizes, all segment sizes, every k in 1..256 by exhaustive case split) that the real uploader-side and downloader-side geometry functions agree on segment count, tail size, padded tail and block sizes, that the segments sum to the file size, and that delivered ranges are trimmed exactly; share layout: the offset table written by WriteBucketProxy / WriteBucketProxy_v2._create_offsets is read back to the same six offsets by ReadBucketProxy._parse_offsets for every block size, data size and hash-area size, the sections follow each other without gap or overlap, the allocated size covers the length-prefixed extension block, and only sizes that do not fit the 4-byte (8-byte) fields are refused; partial: the Deferred pipeline, zfec, AES and hash-tree construction are not under contract.",
    "note": "Partial claim (DESIGN 6 C01 'Not decided'). k,N <= 256 is zfec's limit enforced by hashutil._convergence_hasher_tag. Trusted: pyvc engine, z3; pyutil.mathutil is NOT trusted (its source is executed symbolically).",
}
MANIFEST_ENTRY["text"] += " Bounded end-to-end stand-in (run-time contract, never counted as proved): contracts/immutable_grid.py encodes seeded files with the real Encoder, serves the shares from in-memory servers with per-share faults (missing, bit-flipped, truncated, header-truncated, another file's, another encoding's, dead or dying server, slow server) and checks every ImmutableFileNode.read (whole, ranged, concurrent, paused, next to a cancelled one, after failed reads) against the plaintext. Bounded end-to-end stand-in (run-time contract, never counted as proved): contracts/grid_upload.py runs the real Uploader, server selector, Encoder, checker/verifier and repairer against real StorageServers on disk (contracts/real_grid.py) with read-only, full and failing servers and pre-existing shares, and compares results with ground truth read from the disks and with a reference encoding."
MANIFEST_ENTRY["technique"] = "contract-based deductive verification: pre/postconditions on the real functions, VCs generated from the AST, discharged by z3/cvc5; plus bounded end-to-end run-time scenario contracts on an in-process grid of the real components (stand-in, labelled bounded)"
EXPLANATION = "Relational contract over Encoder._got_all_encoding_parameters and DownloadNode._calculate_sizes executed on the same symbolic (size, k, N, segsize)."
TRUSTED = ["zfec.Encoder/Decoder constructors are opaque handles (zfec is external C code)"]
ASSUMPTIONS = ["termination not proved"]
NOT_DECIDED = "Deferred pipeline, server response order, zfec, AES, hash-tree construction, ReadBucketProxy, SegmentFetcher."

KS_QUICK = list(range(1, 257))


class GeometryAgree(Spec):
    """encoder geometry == downloader geometry, and both are the arithmetic the format documents."""
    file = "allmydata/immutable/encode.py"
    qualname = "Encoder._got_all_encoding_parameters"
    cross_check = 60

    def inputs(self):
        return {"k": ChoiceK(KS_QUICK), "n_extra": IntK(0, 255, rnd=lambda r: r.randint(0, 6)), "happy": IntK(1),
                "size": IntK(1, rnd=lambda r: r.choice([1, 2, 3, 55, 56, 100, 1000, 131072, 131073, r.randint(1, 10 ** 7)])),
                "segmult": IntK(1, rnd=lambda r: r.choice([1, 2, 3, 10, 1000, r.randint(1, 50000)]))}

    def all_cases(self):
        return [{"k": k} for k in KS_QUICK]

    def requires(self, I, a):
        return z3.And(Z(a["n_extra"]) + a["k"] <= 256)

    def node_path(self):
        import os
        from pyvc.harness import SRC
        return os.path.join(SRC, "allmydata/immutable/downloader/node.py")

    def run(self, I, a):
        k = a["k"]
        n = norm_int(Z(a["n_extra"]) + k)
        segsize = norm_int(Z(a["segmult"]) * k)
        mod = self.module()
        enc = SObj(mod.Encoder, {"_codec": None, "file_size": a["size"], "uri_extension_data": {}})
        I.call_value(self.target(I), [enc, (k, a["happy"], n, segsize)], {})
        import importlib
        nmod = importlib.import_module("allmydata.immutable.downloader.node")
        cap = SObj(importlib.import_module("allmydata.uri").CHKFileVerifierURI, {"size": a["size"], "needed_shares": k, "total_shares": n})
        node = SObj(nmod.DownloadNode, {"_verifycap": cap})
        calc = Closure(find_def(self.node_path(), "DownloadNode._calculate_sizes"), None, nmod.__dict__,
                       "DownloadNode._calculate_sizes", self.node_path())
        sizes = I.call_value(calc, [node, segsize], {})
        out = Outcome("return", None)
        out.post = {"enc": {"num_segments": enc.fields["num_segments"], "share_size": enc.fields["share_size"],
                            "block": enc.fields["_codec"].fields["share_size"],
                            "tail_padded": enc.fields["_tail_codec"].fields["data_size"],
                            "tail_block": enc.fields["_tail_codec"].fields["share_size"],
                            "ueb_size": enc.fields["uri_extension_data"]["size"],
                            "ueb_segment_size": enc.fields["uri_extension_data"]["segment_size"],
                            "ueb_num_segments": enc.fields["uri_extension_data"]["num_segments"],
                            "ueb_needed": enc.fields["uri_extension_data"]["needed_shares"],
                            "ueb_total": enc.fields["uri_extension_data"]["total_shares"]},
                    "calc": dict(sizes)}
        return out

    def native(self, a):
        from allmydata.immutable.encode import Encoder
        from allmydata.immutable.downloader.node import DownloadNode
        import types
        k = a["k"]
        n = a["n_extra"] + k
        segsize = a["segmult"] * k

        def f():
            enc = object.__new__(Encoder)
            enc._codec = None
            enc.file_size = a["size"]
            enc.uri_extension_data = {}
            enc._log_number = None
            enc.log = lambda *x, **kw: None
            Encoder._got_all_encoding_parameters(enc, (k, a["happy"], n, segsize))
            node = object.__new__(DownloadNode)
            node._verifycap = types.SimpleNamespace(size=a["size"], needed_shares=k, total_shares=n)
            return enc, DownloadNode._calculate_sizes(node, segsize)
        out = native_outcome(f)
        if out.kind == "return":
            enc, sizes = out.value
            d = enc.uri_extension_data
            out.post = {"enc": {"num_segments": enc.num_segments, "share_size": enc.share_size, "block": enc._codec.share_size,
                                "tail_padded": enc._tail_codec.data_size, "tail_block": enc._tail_codec.share_size,
                                "ueb_size": d["size"], "ueb_segment_size": d["segment_size"], "ueb_num_segments": d["num_segments"],
                                "ueb_needed": d["needed_shares"], "ueb_total": d["total_shares"]},
                        "calc": dict(sizes)}
            out.value = None
        return out

    def ensures(self, I, a, out):
        k = a["k"]
        size = Z(a["size"])
        seg = Z(a["segmult"]) * k
        e = {kk: Z(v) for kk, v in out.post["enc"].items()}
        c = {kk: Z(v) for kk, v in out.post["calc"].items()}
        tail = c["tail_segment_size"]
        return [
            ("L1-num-segments-agree", e["num_segments"] == c["num_segments"]),
            ("L1-block-size-agree", e["block"] == c["block_size"]),
            ("L1-tail-padded-agree", e["tail_padded"] == c["tail_segment_padded"]),
            ("L1-tail-block-agree", e["tail_block"] == c["tail_block_size"]),
            ("L3-segments-sum-to-size", (c["num_segments"] - 1) * seg + tail == size),
            ("tail-in-1..segsize", z3.And(tail >= 1, tail <= seg)),
            ("num-segments-positive", c["num_segments"] >= 1),
            ("padded-tail-is-next-multiple-of-k", z3.And(c["tail_segment_padded"] % k == 0, c["tail_segment_padded"] >= tail,
                                                       c["tail_segment_padded"] < tail + k)),
            ("block-size-times-k-is-segsize", c["block_size"] * k == seg),
            ("tail-block-times-k-is-padded", c["tail_block_size"] * k == c["tail_segment_padded"]),
            ("share-size-is-ceil-size-over-k", z3.And(e["share_size"] * k >= size, (e["share_size"] - 1) * k < size)),
            ("UEB-fields-are-the-parameters", z3.And(e["ueb_size"] == size, e["ueb_segment_size"] == seg,
                                                   e["ueb_num_segments"] == e["num_segments"], e["ueb_needed"] == k,
                                                   e["ueb_total"] == Z(a["n_extra"]) + k)),
        ]

    def canary(self, I, a, out):
        c = {kk: Z(v) for kk, v in out.post["calc"].items()}
        return [("canary", c["tail_segment_size"] == Z(a["segmult"]) * a["k"])]

    def same_result(self, n, s):
        from pyvc.runner import plain_equal
        return plain_equal(n.post, s.post)


class UploadGotSize(Spec):
    """BaseUploadable.get_all_encoding_parameters.<locals>._got_size: segment size is the smallest multiple of k
    that is >= min(max_segsize, file_size).  Free variables of the nested function are bound by the contract."""
    file = "allmydata/immutable/upload.py"
    qualname = "BaseUploadable.get_all_encoding_parameters._got_size"
    cross_check = 100

    def inputs(self):
        return {"k": ChoiceK(KS_QUICK), "max_segsize": IntK(1, rnd=lambda r: r.choice([1, 2, 1000, 131072, r.randint(1, 10 ** 6)])),
                "file_size": IntK(1, rnd=lambda r: r.choice([1, 2, 56, 1000, r.randint(1, 10 ** 7)])), "happy": IntK(1), "n": IntK(1, 256)}

    def all_cases(self):
        return [{"k": k} for k in KS_QUICK]

    def run(self, I, a):
        env = Env()
        this = SObj(self.module().BaseUploadable, {})
        env.vars.update({"max_segsize": a["max_segsize"], "k": a["k"], "happy": a["happy"], "n": a["n"], "self": this})
        clo = Closure(find_def(self.path(), self.qualname), env, self.module().__dict__, self.qualname, self.path())
        v = I.call_value(clo, [a["file_size"]], {})
        out = Outcome("return", v)
        out.post = {"cached": this.fields.get("_all_encoding_parameters")}
        return out

    def native(self, a):
        # run the real enclosing method with a stub Deferred to capture and call the real nested function
        from allmydata.immutable.upload import BaseUploadable
        from twisted.internet import defer

        def f():
            u = object.__new__(BaseUploadable)
            u.default_params_set = True
            u._all_encoding_parameters = None
            u.max_segment_size, u.encoding_param_k, u.encoding_param_happy, u.encoding_param_n = a["max_segsize"], a["k"], a["happy"], a["n"]
            u.get_size = lambda: defer.succeed(a["file_size"])
            res = []
            u.get_all_encoding_parameters().addCallback(res.append)
            return res[0], u._all_encoding_parameters
        out = native_outcome(f)
        if out.kind == "return":
            out.value, cached = out.value
            out.post = {"cached": cached}
        return out

    def ensures(self, I, a, out):
        k = a["k"]
        rk, rh, rn, seg = out.value
        m = z3.If(Z(a["max_segsize"]) < Z(a["file_size"]), Z(a["max_segsize"]), Z(a["file_size"]))
        seg = Z(seg)
        return [("k-happy-n-passed-through", z3.And(Z(rk) == k, Z(rh) == Z(a["happy"]), Z(rn) == Z(a["n"]))),
                ("segsize-multiple-of-k", seg % k == 0),
                ("segsize-is-smallest-multiple>=min(max_segsize,file_size)", z3.And(seg >= m, seg < m + k)),
                ("result-is-cached", z3.BoolVal(out.post["cached"] is not None and len(out.post["cached"]) == 4))]

    def canary(self, I, a, out):
        return [("canary", Z(out.value[3]) == Z(a["file_size"]))]

    def same_result(self, n, s):
        from pyvc.runner import plain_equal
        return plain_equal(n.value, s.value)


class ShareLayoutRT(Spec):
    """WriteBucketProxy(_v2)._create_offsets writes an offset table that ReadBucketProxy._parse_offsets reads back to the
    same six offsets; sections are laid out in order without overlap; only oversized files are refused"""
    file = "allmydata/immutable/layout.py"
    cross_check = 40
    canary_case = {"v": 1}

    def __init__(self, v=None):
        self.qualname = "WriteBucketProxy._create_offsets"

    @property
    def raises(self):
        return (self.module().FileTooLargeError,)

    def inputs(self):
        big = lambda r: r.choice([0, 1, 100, 2 ** 32 - 1, 2 ** 32, 2 ** 31])     # noqa
        return {"v": ChoiceK([1, 2]), "block_size": IntK(0, rnd=big), "data_size": IntK(0, rnd=big), "seg_hash_size": IntK(0, rnd=lambda r: 32 * r.choice([1, 3, 7])),
                "share_hashtree_size": IntK(0, rnd=lambda r: 34 * r.randint(0, 5)), "ueb_size": IntK(0, rnd=lambda r: r.randint(0, 500))}

    def all_cases(self):
        return [{"v": 1}, {"v": 2}]

    def requires(self, I, a):
        # the 8-byte variant is only ever asked for sizes its fields can hold in practice; keep the symbolic range finite for v2 too
        return z3.BoolVal(True)

    def classes(self, a):
        M = self.module()
        return (M.WriteBucketProxy if a["v"] == 1 else M.WriteBucketProxy_v2), M.ReadBucketProxy

    def run(self, I, a):
        W, R = self.classes(a)
        w = SObj(W, {"_segment_hash_size": a["seg_hash_size"], "_share_hashtree_size": a["share_hashtree_size"], "_uri_extension_size": a["ueb_size"]})
        try:
            I.call_value(I.get_attr(w, "_create_offsets"), [a["block_size"], a["data_size"]], {})
        except PyRaise as pr:
            return Outcome("raise", exc=pr.exc, exc_cls=pr.cls)
        r = SObj(R, {})
        parsed = I.call_value(I.get_attr(r, "_parse_offsets"), [w.fields["_offset_data"]], {})
        alloc = I.call_value(I.get_attr(w, "get_allocated_size"), [], {})
        out = Outcome("return", parsed)
        out.post = {"w": w, "alloc": alloc, "r": r}
        return out

    def native(self, a):
        W, R = self.classes(a)

        def f():
            w = object.__new__(W)
            w._segment_hash_size, w._share_hashtree_size, w._uri_extension_size = a["seg_hash_size"], a["share_hashtree_size"], a["ueb_size"]
            w._create_offsets(a["block_size"], a["data_size"])
            r = object.__new__(R)
            parsed = r._parse_offsets(w._offset_data)
            return parsed, w
        out = native_outcome(f)
        if out.kind == "return":
            out.value, w = out.value
            out.post = {"w": w, "alloc": w.get_allocated_size(), "r": None}
        return out

    def same_result(self, n, s):
        from pyvc.runner import plain_equal
        return plain_equal(dict(n.value), dict(s.value))

    def ensures(self, I, a, out):
        lim = 2 ** 32 if a["v"] == 1 else 2 ** 64
        hdr = 0x24 if a["v"] == 1 else 0x44
        bs, ds, sh, st = Z(a["block_size"]), Z(a["data_size"]), Z(a["seg_hash_size"]), Z(a["share_hashtree_size"])
        end = hdr + ds + 3 * sh + st
        too_big = z3.Or(bs >= lim, ds >= lim, end >= lim)
        if out.kind == "raise":
            return [("only-files-whose-sizes-or-offsets-do-not-fit-the-fields-are-refused", too_big)]
        w = out.post["w"]
        wo = w.fields["_offsets"] if isinstance(w, SObj) else w._offsets
        po = out.value
        names = ("data", "plaintext_hash_tree", "crypttext_hash_tree", "block_hashes", "share_hashes", "uri_extension")
        g = [("nothing-that-does-not-fit-is-written", z3.Not(too_big))]
        for nm in names:
            g.append(("reader-sees-the-writers-offset-of-%s" % nm, Z(po[nm]) == Z(wo[nm])))
        g += [("block-data-starts-right-after-the-header", Z(wo["data"]) == hdr),
              ("sections-follow-each-other-without-gap-or-overlap", z3.And(Z(wo["plaintext_hash_tree"]) == hdr + ds, Z(wo["crypttext_hash_tree"]) == hdr + ds + sh,
                                                                             Z(wo["block_hashes"]) == hdr + ds + 2 * sh, Z(wo["share_hashes"]) == hdr + ds + 3 * sh, Z(wo["uri_extension"]) == end)),
              ("allocated-size-covers-the-length-prefixed-extension-block", Z(out.post["alloc"]) == end + (4 if a["v"] == 1 else 8) + Z(a["ueb_size"]))]
        return g

    def canary(self, I, a, out):
        if out.kind != "return":
            return []
        return [("canary", Z(out.value["uri_extension"]) < 1000)]


def extra_checks(rep, tier):
    from contracts import immutable_grid
    immutable_grid.grid_check(rep, tier, "C01")
    from contracts import grid_upload
    grid_upload.grid_check(rep, tier, "C01")


def contracts(tier):
    return [GeometryAgree(), UploadGotSize(), ShareLayoutRT()]
