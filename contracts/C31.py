"""C31 HTTP and direct storage access agree -- contracts on storage/http_server.py (read_range,
HTTPServer.mutable_read_test_write) and storage/http_client.py (read_share_chunk)"""
import z3
from pyvc.harness import Spec, IntK, BoolK, BlobK, ChoiceK, Outcome
from pyvc.values import *  # noqa
from contracts.lib import *  # noqa

LEVEL = "other"
MANIFEST_ENTRY = {
    "text": "Range reads: for every parsed Range (offset, end) and share length, http_server.read_range reads exactly [offset, min(end, share_length)) through the share's own read function -- the bytes a direct read_share_data(offset, end-offset) returns -- with status 206 and Content-Range offset..min(end, length); an empty result (offset at or past the end, or offset >= end) is 204 No Content and nothing is read; a missing range end, another unit or several ranges are 416. The client side (http_client.read_share_chunk) asks for exactly [offset, offset+length), turns 204 into b'', refuses a Content-Range longer than asked or a body whose length differs from it, and otherwise returns the body unchanged. Read-test-write: HTTPServer.mutable_read_test_write hands slot_testv_and_readv_and_writev exactly the decoded request -- for each share the test vector (offset, size, b'eq', specimen) with the client's own size, the write vector (offset, data), the new length, and the read vector (offset, size) in order -- with the three secrets in the order (write enabler, renew, cancel), and returns the storage server's (success, data) unchanged; BadWriteEnablerError becomes 401. The client's read-test-write message (StorageClientMutables._read_test_write_chunks, run natively over a grid of vectors) carries exactly the caller's test vectors, write vectors, read vector and new_length -- 0 stays 0 and None stays None. Chunked uploads: UploadsInProgress keeps every other in-progress share of a storage index reachable (with its own upload secret) when one share finishes or aborts, and drops the index entry with its last share.",
    "note": "CBOR encoding/decoding, klein routing, treq, werkzeug's Range/Content-Range formatting and parsing are trusted libraries (stubbed). HTTPServer.write_share_data's Content-Range handling and completion detection, share listing and lease addition over HTTP are not under contract here (the storage-server side of them is C22-C25, the request authorisation C30). 'Same server state' follows because the HTTP server calls the same StorageServer methods; it is not separately proved.",
    "technique": "contract-based deductive verification (pyvc VCs + z3) of the marshalling functions with library stubs",
}
MANIFEST_ENTRY["text"] += ' Bounded end-to-end stand-in (run-time contract, never counted as proved): contracts/grid_http.py replays seeded operation histories on twin real StorageServers, one called directly and one through the real HTTP client and HTTPServer resource in memory, comparing every result and the logical server state, interleaved with requests that must be refused (wrong swissnum, wrong or missing secrets) and must change nothing.'
MANIFEST_ENTRY["technique"] += "; plus bounded end-to-end run-time scenario contracts on an in-process grid of the real components (stand-in, labelled bounded)"
EXPLANATION = "The HTTP layer passes ranges and vectors to/from the storage server unchanged."
TRUSTED = ["werkzeug Range/ContentRange, cbor2, klein, treq"]
ASSUMPTIONS = []
NOT_DECIDED = "immutable chunked upload over HTTP, list_shares, add_lease marshalling; StorageClient.request."
HS = "allmydata/storage/http_server.py"
HC = "allmydata/storage/http_client.py"


class ReadRange(Spec):
    file = HS
    qualname = "read_range"
    cross_check = 0
    canary_case = {"header": "one"}

    @property
    def raises(self):
        return (self.module()._HTTPError,)

    def inputs(self):
        return {"header": ChoiceK(["one", "open", "two", "otherunit", "unparseable"]), "offset": IntK(0), "end": IntK(0), "share_length": IntK(0)}

    def all_cases(self):
        return [{"header": h} for h in ("one", "open", "two", "otherunit", "unparseable")]

    def config(self):
        me = self

        def parse(I, a, kw):
            h = me._a["header"]
            if h == "unparseable":
                return None
            rng = {"one": [(me._a["offset"], me._a["end"])], "open": [(me._a["offset"], None)], "two": [(me._a["offset"], me._a["end"]), (0, 1)], "otherunit": [(me._a["offset"], me._a["end"])]}[h]
            return stub("Range", units=("pages" if h == "otherunit" else "bytes"), ranges=rng)
        return {"overrides": {"http_server.parse_range_header": parse, "werkzeug.http.parse_range_header": parse, "http.parse_range_header": parse,
                              "range.ContentRange": lambda I, a, kw: stub("ContentRange", to_header=lambda I_, a_, k_: ("content-range", a[0], a[1], a[2])),
                              "http_server.ContentRange": lambda I, a, kw: stub("ContentRange", to_header=lambda I_, a_, k_: ("content-range", a[0], a[1], a[2])),
                              "http_server._ReadRangeProducer": lambda I, a, kw: (me._producers.append(tuple(a)), "producer")[1],
                              "twisted.internet.defer.Deferred": lambda I, a, kw: "deferred", "defer.Deferred": lambda I, a, kw: "deferred"}}

    def run(self, I, a):
        self._a, self._producers, self._log = a, [], []
        req = stub("request", getHeader=lambda I_, a_, k_: "bytes=x-y", setResponseCode=lambda I_, a_, k_: self._log.append(("code", a_[0])),
                   setHeader=lambda I_, a_, k_: self._log.append(("header", a_[0], a_[1])), registerProducer=lambda I_, a_, k_: self._log.append(("register", a_[0], a_[1])))
        from pyvc.interp import ModelFn
        read_data = ModelFn("read_data", lambda I_, a_, k_: (self._log.append(("read", a_[0], a_[1])), b"")[1])
        return I.call_value(self.target(I), [req, read_data, a["share_length"]], {})

    def ensures(self, I, a, out):
        from twisted.web import http
        off, end, ln = Z(a["offset"]), Z(a["end"]), Z(a["share_length"])
        cend = z3.If(end < ln, end, ln)
        if out.kind == "raise":
            code = out.exc.fields.get("code") if isinstance(out.exc, SObj) else getattr(out.exc, "code", None)
            g = [("nothing-is-read-when-the-request-is-refused", z3.BoolVal(not self._producers and not any(e[0] == "read" for e in self._log)))]
            if a["header"] == "one":
                g += [("a-single-byte-range-is-refused-only-when-it-is-empty", off >= cend), ("an-empty-range-is-204", z3.BoolVal(code == http.NO_CONTENT))]
            else:
                g.append(("unsupported-range-headers-are-416", z3.BoolVal(code == http.REQUESTED_RANGE_NOT_SATISFIABLE)))
            return g
        g = [("only-a-single-closed-byte-range-is-served", z3.BoolVal(a["header"] == "one")),
             ("a-served-range-is-not-empty", off < cend),
             ("status-206", z3.BoolVal(("code", http.PARTIAL_CONTENT) in self._log)),
             ("exactly-one-producer", z3.BoolVal(len(self._producers) == 1))]
        if len(self._producers) == 1:
            p = self._producers[0]
            g += [("reads-start-at-the-requested-offset", Z(p[3]) == off), ("read-length-is-clipped-at-the-end-of-the-share", Z(p[4]) == cend - off)]
        hdr = [e for e in self._log if e[0] == "header" and e[1] == "content-range"]
        g.append(("content-range-states-the-clipped-range", z3.And(z3.BoolVal(len(hdr) == 1 and hdr[0][2][1] == "bytes"), Z(hdr[0][2][2]) == off, Z(hdr[0][2][3]) == cend) if len(hdr) == 1 else z3.BoolVal(False)))
        return g

    def canary(self, I, a, out):
        if out.kind != "return" or not self._producers:
            return []
        return [("canary", Z(self._producers[0][4]) == Z(a["end"]) - Z(a["offset"]))]


class ReadTestWriteServer(Spec):
    file = HS
    qualname = "HTTPServer.mutable_read_test_write"
    level = "B"
    bound = "two shares with 2 and 0 test vectors, 1 and 2 write vectors; two read vectors (all offsets, sizes, specimens, data symbolic)"
    cross_check = 0
    canary_case = {"bad_enabler": False}

    @property
    def raises(self):
        return (self.module()._HTTPError,)

    def inputs(self):
        d = {"bad_enabler": ChoiceK([False, True]), "success": BoolK()}
        for nm in ("to0", "ts0", "to1", "ts1", "wo0", "wo1", "wo2", "nl0", "ro0", "rs0", "ro1", "rs1"):
            d[nm] = IntK(0)
        for nm in ("sp0", "sp1", "wd0", "wd1", "wd2"):
            d[nm] = BlobK()
        return d

    def all_cases(self):
        return [{"bad_enabler": False}, {"bad_enabler": True}]

    def config(self):
        me = self
        return {"on_yield": lambda I, val, n, env: val,
                "overrides": {"http_server.read_encoded": lambda I, a, kw: me._request, "HTTPServer._send_encoded": lambda I, a, kw: ("sent", a[2])}}

    def run(self, I, a):
        M = self.module()
        from allmydata.interfaces import BadWriteEnablerError
        self._calls = []
        self._request = {"test-write-vectors": {3: {"test": [{"offset": a["to0"], "size": a["ts0"], "specimen": a["sp0"]}, {"offset": a["to1"], "size": a["ts1"], "specimen": a["sp1"]}],
                                                    "write": [{"offset": a["wo0"], "data": a["wd0"]}], "new-length": a["nl0"]},
                                                7: {"test": [], "write": [{"offset": a["wo1"], "data": a["wd1"]}, {"offset": a["wo2"], "data": a["wd2"]}], "new-length": None}},
                         "read-vector": [{"offset": a["ro0"], "size": a["rs0"]}, {"offset": a["ro1"], "size": a["rs1"]}]}
        self._readdata = {3: [b"x"]}

        def slot(I_, a_, k_):
            self._calls.append(tuple(a_))
            if a["bad_enabler"]:
                raise PyRaise(BadWriteEnablerError("bad"), BadWriteEnablerError)
            return (a["success"], self._readdata)
        ss = stub("storage_server", slot_testv_and_readv_and_writev=slot)
        srv = SObj(M.HTTPServer, {"_storage_server": ss, "_reactor": None})
        auth = {M.Secrets.WRITE_ENABLER: b"W" * 32, M.Secrets.LEASE_RENEW: b"R" * 32, M.Secrets.LEASE_CANCEL: b"C" * 32}
        return I.call_value(self.target(I), [srv, "request", auth, b"s" * 16], {})

    def ensures(self, I, a, out):
        from twisted.web import http
        from pyvc.models_ext import unwrap_key
        g = [("exactly-one-storage-call", z3.BoolVal(len(self._calls) == 1))]
        if len(self._calls) != 1:
            return g
        si, secrets, twv, rv = self._calls[0][:4]
        twv = {unwrap_key(k): v for k, v in twv.items()}
        g.append(("secrets-in-the-order-write-enabler-renew-cancel", z3.BoolVal(tuple(secrets) == (b"W" * 32, b"R" * 32, b"C" * 32) and si == b"s" * 16)))
        ok = set(twv.keys()) == {3, 7} and len(twv[3][0]) == 2 and len(twv[3][1]) == 1 and len(twv[7][0]) == 0 and len(twv[7][1]) == 2 and len(rv) == 2
        g.append(("same-shares-and-vector-counts", z3.BoolVal(ok)))
        if ok:
            t0, t1 = twv[3][0]
            g += [("test-vectors-carry-the-clients-offset-size-operator-and-specimen",
                   z3.And(Z(t0[0]) == Z(a["to0"]), Z(t0[1]) == Z(a["ts0"]), z3.BoolVal(t0[2] == b"eq" and t0[3] is a["sp0"]),
                          Z(t1[0]) == Z(a["to1"]), Z(t1[1]) == Z(a["ts1"]), z3.BoolVal(t1[2] == b"eq" and t1[3] is a["sp1"]))),
                  ("write-vectors-carry-offset-and-data-in-order",
                   z3.And(Z(twv[3][1][0][0]) == Z(a["wo0"]), z3.BoolVal(twv[3][1][0][1] is a["wd0"]), Z(twv[7][1][0][0]) == Z(a["wo1"]), z3.BoolVal(twv[7][1][0][1] is a["wd1"]),
                          Z(twv[7][1][1][0]) == Z(a["wo2"]), z3.BoolVal(twv[7][1][1][1] is a["wd2"]))),
                  ("new-length-is-passed-through", z3.And(Z(twv[3][2]) == Z(a["nl0"]), z3.BoolVal(twv[7][2] is None))),
                  ("read-vector-is-passed-through-in-order", z3.And(Z(rv[0][0]) == Z(a["ro0"]), Z(rv[0][1]) == Z(a["rs0"]), Z(rv[1][0]) == Z(a["ro1"]), Z(rv[1][1]) == Z(a["rs1"])))]
        if out.kind == "raise":
            code = out.exc.fields.get("code") if isinstance(out.exc, SObj) else getattr(out.exc, "code", None)
            g.append(("a-bad-write-enabler-is-401", z3.BoolVal(a["bad_enabler"] and code == http.UNAUTHORIZED)))
        else:
            v = out.value
            g.append(("the-storage-servers-answer-is-returned-unchanged", z3.BoolVal(isinstance(v, tuple) and v[0] == "sent" and v[1]["data"] is self._readdata and v[1]["success"] is a["success"])))
        return g

    def canary(self, I, a, out):
        return [("canary", z3.BoolVal(not self._calls))]


class ReadShareChunkClient(Spec):
    file = HC
    qualname = "read_share_chunk"
    cross_check = 0
    canary_case = {"code": 206}

    @property
    def raises(self):
        return (ValueError, self.module().ClientException)

    def inputs(self):
        return {"code": ChoiceK([204, 206, 200, 500]), "offset": IntK(0), "length": IntK(1), "cr_start": IntK(0), "cr_stop": IntK(0), "actual": IntK(0), "ctype_ok": BoolK()}

    def all_cases(self):
        return [{"code": c} for c in (204, 206, 200, 500)]

    def requires(self, I, a):
        return Z(a["cr_stop"]) >= Z(a["cr_start"])

    def config(self):
        me = self
        return {"on_yield": lambda I, val, n, env: val,
                "overrides": {"http_client.Range": lambda I, a, kw: stub("Range", to_header=lambda I_, a_, k_: ("range", a[0], a[1])),
                              "range.Range": lambda I, a, kw: stub("Range", to_header=lambda I_, a_, k_: ("range", a[0], a[1])),
                              "http_client.Headers": lambda I, a, kw: a[0], "http_headers.Headers": lambda I, a, kw: a[0],
                              "http_client.get_content_type": lambda I, a, kw: me._ctype, "http_common.get_content_type": lambda I, a, kw: me._ctype,
                              "http_client.parse_content_range_header": lambda I, a, kw: stub("ContentRange", start=me._a["cr_start"], stop=me._a["cr_stop"]),
                              "http.parse_content_range_header": lambda I, a, kw: stub("ContentRange", start=me._a["cr_start"], stop=me._a["cr_stop"]),
                              "http_client.limited_content": lambda I, a, kw: (me._limit.append(a[2]), me._body)[1],
                              "http_client._encode_si": lambda I, a, kw: "si"}}

    def run(self, I, a):
        self._a, self._req, self._limit = a, [], []
        self._ctype = "application/octet-stream" if I.path.branch(to_z3_bool(a["ctype_ok"])) else "text/plain"
        self._payload = SStr(z3.String("payload"), True, a["actual"])
        pos = [0]
        self._body = stub("body", seek=lambda I_, a_, k_: None, tell=lambda I_, a_, k_: a["actual"], read=lambda I_, a_, k_: self._payload)
        resp = stub("response", code=a["code"], headers=stub("headers", getRawHeaders=lambda I_, a_, k_: ["bytes x-y/z"]))
        client = stub("client", relative_url=lambda I_, a_, k_: "url", request=lambda I_, a_, k_: (self._req.append((tuple(a_), dict(k_))), resp)[1], _clock=None)
        return I.call_value(self.target(I), [client, "immutable", b"s" * 16, 3, a["offset"], a["length"]], {})

    def ensures(self, I, a, out):
        off, ln = Z(a["offset"]), Z(a["length"])
        g = [("exactly-one-request", z3.BoolVal(len(self._req) == 1))]
        if len(self._req) == 1:
            hdr = self._req[0][1].get("headers")
            rng = hdr["range"][0] if isinstance(hdr, dict) and "range" in hdr else None
            ok = isinstance(rng, tuple) and rng[1] == "bytes" and len(rng[2]) == 1
            g.append(("the-range-asked-for-is-offset-to-offset-plus-length", z3.And(z3.BoolVal(ok), Z(rng[2][0][0]) == off, Z(rng[2][0][1]) == off + ln) if ok else z3.BoolVal(False)))
        supposed = Z(a["cr_stop"]) - Z(a["cr_start"])
        if out.kind == "raise":
            if a["code"] == 204:
                g.append(("no-content-is-not-an-error", z3.BoolVal(False)))
            elif a["code"] == 206:
                g.append(("a-206-is-refused-only-for-a-wrong-type-an-over-long-range-or-a-body-of-another-length",
                          z3.Or(z3.BoolVal(self._ctype != "application/octet-stream"), supposed > ln, Z(a["actual"]) != supposed)))
            return g
        if a["code"] == 204:
            g.append(("no-content-means-an-empty-read", z3.BoolVal(out.value == b"")))
        elif a["code"] == 206:
            g += [("a-body-is-accepted-only-if-it-is-as-long-as-its-content-range-and-not-longer-than-asked", z3.And(supposed <= ln, Z(a["actual"]) == supposed, z3.BoolVal(self._ctype == "application/octet-stream"))),
                  ("the-body-is-returned-unchanged", z3.BoolVal(out.value is self._payload))]
        else:
            g.append(("other-status-codes-are-errors", z3.BoolVal(False)))
        return g

    def canary(self, I, a, out):
        return [("canary", z3.BoolVal(out.kind != "return"))] if a["code"] == 206 else []


class UploadsBookkeeping(Spec):
    """UploadsInProgress: finishing (or aborting) one share of a storage index does not make the server forget the other
    in-progress shares of that storage index; the index entry disappears with its last share"""
    file = HS
    qualname = "UploadsInProgress.remove_write_bucket"
    level = "B"
    bound = "two shares (numbers 1 and 2) of one storage index plus one share of another storage index"
    cross_check = 0
    canary_case = {"first": 1}

    @property
    def raises(self):
        return (self.module()._HTTPError,)

    def inputs(self):
        return {"first": ChoiceK([1, 2]), "s1": BlobK(), "s2": BlobK()}

    def all_cases(self):
        return [{"first": 1}, {"first": 2}]

    def config(self):
        return {"overrides": {"hashutil.timing_safe_compare": lambda I, a, kw: a[0] is a[1]}}

    def run(self, I, a):
        M = self.module()
        up = SObj(M.UploadsInProgress, {"_uploads": {}, "_bucketwriters": {}})
        b = {1: stub("bucketwriter1"), 2: stub("bucketwriter2"), 9: stub("bucketwriter-other")}
        sec = {1: a["s1"], 2: a["s2"]}
        add = I.get_attr(up, "add_write_bucket")
        I.call_value(add, [b"SI-A", 1, sec[1], b[1]], {})
        I.call_value(add, [b"SI-A", 2, sec[2], b[2]], {})
        I.call_value(add, [b"SI-B", 9, b"other-secret", b[9]], {})
        first, second = a["first"], 3 - a["first"]
        I.call_value(self.target(I), [up, b[first]], {})
        res = {}
        get = I.get_attr(up, "get_write_bucket")

        def safe_get(*args):
            try:
                return I.call_value(get, list(args), {})
            except PyRaise as pr:
                return pr.exc.fields.get("code") if isinstance(pr.exc, SObj) else getattr(pr.exc, "code", repr(pr.exc))
        res["other-share"] = safe_get(b"SI-A", second, sec[second])
        res["other-index"] = safe_get(b"SI-B", 9, b"other-secret")
        res["finished"] = safe_get(b"SI-A", first, sec[first])
        try:
            I.call_value(self.target(I), [up, b[second]], {})
        except PyRaise as pr:
            res["second-removal"] = repr(pr.cls)
        res["index-after-last"] = b"SI-A" in [getattr(k, "v", k) for k in up.fields["_uploads"].keys()]
        try:
            I.call_value(self.target(I), [up, b[second]], {})         # a bucket that is no longer tracked is ignored
        except PyRaise as pr:
            res["untracked-removal"] = repr(pr.cls)
        out = Outcome("return", res)
        out.post = {"b": b, "second": second}
        return out

    def ensures(self, I, a, out):
        r, b = out.value, out.post["b"]
        return [("the-other-in-progress-share-of-the-same-storage-index-is-still-reachable", z3.BoolVal(r["other-share"] is b[out.post["second"]])),
                ("uploads-of-other-storage-indexes-are-untouched", z3.BoolVal(r["other-index"] is b[9])),
                ("the-finished-share-is-no-longer-an-upload-in-progress", z3.BoolVal(r["finished"] == 404)),
                ("the-index-entry-goes-away-with-its-last-share", z3.BoolVal(r["index-after-last"] is False)),
                ("removing-buckets-never-fails", z3.BoolVal("second-removal" not in r and "untracked-removal" not in r))]

    def canary(self, I, a, out):
        return [("canary", z3.BoolVal(out.value["finished"] != 404))]


def rtw_client_failures():
    """native: the CBOR message built by StorageClientMutables._read_test_write_chunks carries exactly the caller's vectors"""
    import allmydata.storage.http_client as HCm
    from twisted.web import http
    bad = []
    n = 0
    for new_length in (None, 0, 1, 7, 2 ** 40):
        for tests in ([], [(0, 3, b"abc")], [(5, 0, b""), (2 ** 33, 2, b"zz")]):
            for writes in ([], [(0, b"data")], [(9, b""), (2 ** 34, b"x")]):
                n += 1
                sent = {}

                class FakeResponse(object):
                    code = http.OK

                class FakeClient(object):
                    def relative_url(self, path):
                        return path

                    async def request(self, method, url, **kw):
                        sent.update(kw, method=method, url=url)
                        return FakeResponse()

                    async def decode_cbor(self, response, schema):
                        return {"success": True, "data": {3: [b"r"]}}
                m = HCm.StorageClientMutables(FakeClient())
                twv = {3: HCm.TestWriteVectors(test_vectors=[HCm.TestVector(offset=o, size=s, specimen=sp) for (o, s, sp) in tests],
                                               write_vectors=[HCm.WriteVector(offset=o, data=d) for (o, d) in writes], new_length=new_length)}
                rv = [HCm.ReadVector(offset=1, size=2), HCm.ReadVector(offset=0, size=0)]
                coro = m._read_test_write_chunks(b"s" * 16, b"W" * 32, b"R" * 32, b"C" * 32, twv, rv)
                try:
                    coro.send(None)
                    result = "did not finish"
                except StopIteration as e:
                    result = e.value
                except Exception as e:      # noqa
                    result = repr(e)
                msg = sent.get("message_to_serialize") or {}
                v = (msg.get("test-write-vectors") or {}).get(3) or {}
                ok = (isinstance(result, HCm.ReadTestWriteResult) and result.success is True and result.reads == {3: [b"r"]}
                      and sent.get("write_enabler_secret") == b"W" * 32 and sent.get("lease_renew_secret") == b"R" * 32 and sent.get("lease_cancel_secret") == b"C" * 32
                      and [(t["offset"], t["size"], t["specimen"]) for t in v.get("test", [])] == tests
                      and [(w["offset"], w["data"]) for w in v.get("write", [])] == writes
                      and "new-length" in v and v["new-length"] == new_length and (v["new-length"] is None) == (new_length is None) and type(v["new-length"]) is type(new_length)
                      and [(r["offset"], r["size"]) for r in msg.get("read-vector", [])] == [(1, 2), (0, 0)])
                if not ok:
                    bad.append({"new_length": new_length, "tests": [list(t[:2]) for t in tests], "writes": [w[0] for w in writes], "sent_new_length": repr(v.get("new-length", "missing")), "result": repr(result)[:100]})
    return bad, n


def extra_checks(rep, tier):
    from contracts import grid_http
    grid_http.grid_check(rep, tier, "C31")
    bad, n = rtw_client_failures()
    name = "ReadTestWriteClient:the-message-carries-exactly-the-callers-vectors-and-new-length"
    rep.obligations += 1
    rep.bounded_obligations += 1
    rep.paths += n
    rep.sym_paths += n
    rep.bounds.append("client read-test-write message: new_length in {None, 0, 1, 7, 2**40} x 3 test-vector lists x 3 write-vector lists (%d messages, native)" % n)
    if not bad:
        rep.discharged += 1
        rep.discharged_names.add(name)
        return
    rep.violations.append({"property": "C31", "contract": "ReadTestWriteClient", "obligation": name, "status": "runtime", "inputs": bad[0],
                           "native_outcome": "%d of %d messages differ; first: %r" % (len(bad), n, bad[0]), "confirmed_on_real_code": True})


def contracts(tier):
    return [ReadRange(), ReadTestWriteServer(), ReadShareChunkClient(), UploadsBookkeeping()]
