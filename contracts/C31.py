"""C31 HTTP and direct storage access agree -- contracts on storage/http_server.py (read_range,
HTTPServer.mutable_read_test_write) and storage/http_client.py (read_share_chunk)"""
import z3
from pyvc.harness import Spec, IntK, BoolK, BlobK, ChoiceK, Outcome
from pyvc.values import *  # noqa
from contracts.lib import *  # noqa

LEVEL = "other"
MANIFEST_ENTRY = {
    "text": "Range reads: for every parsed Range (offset, end) and share length, http_server.read_range reads exactly [offset, min(end, share_length)) through the share's own read function -- the bytes a direct read_share_data(offset, end-offset) returns -- with status 206 and Content-Range offset..min(end, length); an empty result (offset at or past the end, or offset >= end) is 204 No Content and nothing is read; a missing range end, another unit or several ranges are 416. The client side (http_client.read_share_chunk) asks for exactly [offset, offset+length), turns 204 into b'', refuses a Content-Range longer than asked or a body whose length differs from it, and otherwise returns the body unchanged. Read-test-write: HTTPServer.mutable_read_test_write hands slot_testv_and_readv_and_writev exactly the decoded request -- for each share the test vector (offset, size, b'eq', specimen) with the client's own size, the write vector (offset, data), the new length, and the read vector (offset, size) in order -- with the three secrets in the order (write enabler, renew, cancel), and returns the storage server's (success, data) unchanged; BadWriteEnablerError becomes 401.",
    "note": "CBOR encoding/decoding, klein routing, treq, werkzeug's Range/Content-Range formatting and parsing are trusted libraries (stubbed). Chunked immutable uploads (write_share_data / completion detection), share listing and lease addition over HTTP are not under contract here (the storage-server side of them is C22-C25, the request authorisation C30). 'Same server state' follows because the HTTP server calls the same StorageServer methods; it is not separately proved.",
    "technique": "contract-based deductive verification (pyvc VCs + z3) of the marshalling functions with library stubs",
}
EXPLANATION = "The HTTP layer passes ranges and vectors to/from the storage server unchanged."
TRUSTED = ["werkzeug Range/ContentRange, cbor2, klein, treq"]
ASSUMPTIONS = []
NOT_DECIDED = "immutable chunked upload over HTTP, list_shares, add_lease marshalling; StorageClient.request."
HS = "allmydata/storage/http_server.py"
HC = "allmydata/storage/http_client.py"


class ReadRange(Spec):
    file = HS
    qualname = "read_range"
    cross_check = 0
    canary_case = {"header": "one"}

    @property
    def raises(self):
        return (self.module()._HTTPError,)

    def inputs(self):
        return {"header": ChoiceK(["one", "open", "two", "otherunit", "unparseable"]), "offset": IntK(0), "end": IntK(0), "share_length": IntK(0)}

    def all_cases(self):
        return [{"header": h} for h in ("one", "open", "two", "otherunit", "unparseable")]

    def config(self):
        me = self

        def parse(I, a, kw):
            h = me._a["header"]
            if h == "unparseable":
                return None
            rng = {"one": [(me._a["offset"], me._a["end"])], "open": [(me._a["offset"], None)], "two": [(me._a["offset"], me._a["end"]), (0, 1)], "otherunit": [(me._a["offset"], me._a["end"])]}[h]
            return stub("Range", units=("pages" if h == "otherunit" else "bytes"), ranges=rng)
        return {"overrides": {"http_server.parse_range_header": parse, "werkzeug.http.parse_range_header": parse, "http.parse_range_header": parse,
                              "range.ContentRange": lambda I, a, kw: stub("ContentRange", to_header=lambda I_, a_, k_: ("content-range", a[0], a[1], a[2])),
                              "http_server.ContentRange": lambda I, a, kw: stub("ContentRange", to_header=lambda I_, a_, k_: ("content-range", a[0], a[1], a[2])),
                              "http_server._ReadRangeProducer": lambda I, a, kw: (me._producers.append(tuple(a)), "producer")[1],
                              "twisted.internet.defer.Deferred": lambda I, a, kw: "deferred", "defer.Deferred": lambda I, a, kw: "deferred"}}

    def run(self, I, a):
        self._a, self._producers, self._log = a, [], []
        req = stub("request", getHeader=lambda I_, a_, k_: "bytes=x-y", setResponseCode=lambda I_, a_, k_: self._log.append(("code", a_[0])),
                   setHeader=lambda I_, a_, k_: self._log.append(("header", a_[0], a_[1])), registerProducer=lambda I_, a_, k_: self._log.append(("register", a_[0], a_[1])))
        from pyvc.interp import ModelFn
        read_data = ModelFn("read_data", lambda I_, a_, k_: (self._log.append(("read", a_[0], a_[1])), b"")[1])
        return I.call_value(self.target(I), [req, read_data, a["share_length"]], {})

    def ensures(self, I, a, out):
        from twisted.web import http
        off, end, ln = Z(a["offset"]), Z(a["end"]), Z(a["share_length"])
        cend = z3.If(end < ln, end, ln)
        if out.kind == "raise":
            code = out.exc.fields.get("code") if isinstance(out.exc, SObj) else getattr(out.exc, "code", None)
            g = [("nothing-is-read-when-the-request-is-refused", z3.BoolVal(not self._producers and not any(e[0] == "read" for e in self._log)))]
            if a["header"] == "one":
                g += [("a-single-byte-range-is-refused-only-when-it-is-empty", off >= cend), ("an-empty-range-is-204", z3.BoolVal(code == http.NO_CONTENT))]
            else:
                g.append(("unsupported-range-headers-are-416", z3.BoolVal(code == http.REQUESTED_RANGE_NOT_SATISFIABLE)))
            return g
        g = [("only-a-single-closed-byte-range-is-served", z3.BoolVal(a["header"] == "one")),
             ("a-served-range-is-not-empty", off < cend),
             ("status-206", z3.BoolVal(("code", http.PARTIAL_CONTENT) in self._log)),
             ("exactly-one-producer", z3.BoolVal(len(self._producers) == 1))]
        if len(self._producers) == 1:
            p = self._producers[0]
            g += [("reads-start-at-the-requested-offset", Z(p[3]) == off), ("read-length-is-clipped-at-the-end-of-the-share", Z(p[4]) == cend - off)]
        hdr = [e for e in self._log if e[0] == "header" and e[1] == "content-range"]
        g.append(("content-range-states-the-clipped-range", z3.And(z3.BoolVal(len(hdr) == 1 and hdr[0][2][1] == "bytes"), Z(hdr[0][2][2]) == off, Z(hdr[0][2][3]) == cend) if len(hdr) == 1 else z3.BoolVal(False)))
        return g

    def canary(self, I, a, out):
        if out.kind != "return" or not self._producers:
            return []
        return [("canary", Z(self._producers[0][4]) == Z(a["end"]) - Z(a["offset"]))]


class ReadTestWriteServer(Spec):
    file = HS
    qualname = "HTTPServer.mutable_read_test_write"
    level = "B"
    bound = "two shares with 2 and 0 test vectors, 1 and 2 write vectors; two read vectors (all offsets, sizes, specimens, data symbolic)"
    cross_check = 0
    canary_case = {"bad_enabler": False}

    @property
    def raises(self):
        return (self.module()._HTTPError,)

    def inputs(self):
        d = {"bad_enabler": ChoiceK([False, True]), "success": BoolK()}
        for nm in ("to0", "ts0", "to1", "ts1", "wo0", "wo1", "wo2", "nl0", "ro0", "rs0", "ro1", "rs1"):
            d[nm] = IntK(0)
        for nm in ("sp0", "sp1", "wd0", "wd1", "wd2"):
            d[nm] = BlobK()
        return d

    def all_cases(self):
        return [{"bad_enabler": False}, {"bad_enabler": True}]

    def config(self):
        me = self
        return {"on_yield": lambda I, val, n, env: val,
                "overrides": {"http_server.read_encoded": lambda I, a, kw: me._request, "HTTPServer._send_encoded": lambda I, a, kw: ("sent", a[2])}}

    def run(self, I, a):
        M = self.module()
        from allmydata.interfaces import BadWriteEnablerError
        self._calls = []
        self._request = {"test-write-vectors": {3: {"test": [{"offset": a["to0"], "size": a["ts0"], "specimen": a["sp0"]}, {"offset": a["to1"], "size": a["ts1"], "specimen": a["sp1"]}],
                                                    "write": [{"offset": a["wo0"], "data": a["wd0"]}], "new-length": a["nl0"]},
                                                7: {"test": [], "write": [{"offset": a["wo1"], "data": a["wd1"]}, {"offset": a["wo2"], "data": a["wd2"]}], "new-length": None}},
                         "read-vector": [{"offset": a["ro0"], "size": a["rs0"]}, {"offset": a["ro1"], "size": a["rs1"]}]}
        self._readdata = {3: [b"x"]}

        def slot(I_, a_, k_):
            self._calls.append(tuple(a_))
            if a["bad_enabler"]:
                raise PyRaise(BadWriteEnablerError("bad"), BadWriteEnablerError)
            return (a["success"], self._readdata)
        ss = stub("storage_server", slot_testv_and_readv_and_writev=slot)
        srv = SObj(M.HTTPServer, {"_storage_server": ss, "_reactor": None})
        auth = {M.Secrets.WRITE_ENABLER: b"W" * 32, M.Secrets.LEASE_RENEW: b"R" * 32, M.Secrets.LEASE_CANCEL: b"C" * 32}
        return I.call_value(self.target(I), [srv, "request", auth, b"s" * 16], {})

    def ensures(self, I, a, out):
        from twisted.web import http
        from pyvc.models_ext import unwrap_key
        g = [("exactly-one-storage-call", z3.BoolVal(len(self._calls) == 1))]
        if len(self._calls) != 1:
            return g
        si, secrets, twv, rv = self._calls[0][:4]
        twv = {unwrap_key(k): v for k, v in twv.items()}
        g.append(("secrets-in-the-order-write-enabler-renew-cancel", z3.BoolVal(tuple(secrets) == (b"W" * 32, b"R" * 32, b"C" * 32) and si == b"s" * 16)))
        ok = set(twv.keys()) == {3, 7} and len(twv[3][0]) == 2 and len(twv[3][1]) == 1 and len(twv[7][0]) == 0 and len(twv[7][1]) == 2 and len(rv) == 2
        g.append(("same-shares-and-vector-counts", z3.BoolVal(ok)))
        if ok:
            t0, t1 = twv[3][0]
            g += [("test-vectors-carry-the-clients-offset-size-operator-and-specimen",
                   z3.And(Z(t0[0]) == Z(a["to0"]), Z(t0[1]) == Z(a["ts0"]), z3.BoolVal(t0[2] == b"eq" and t0[3] is a["sp0"]),
                          Z(t1[0]) == Z(a["to1"]), Z(t1[1]) == Z(a["ts1"]), z3.BoolVal(t1[2] == b"eq" and t1[3] is a["sp1"]))),
                  ("write-vectors-carry-offset-and-data-in-order",
                   z3.And(Z(twv[3][1][0][0]) == Z(a["wo0"]), z3.BoolVal(twv[3][1][0][1] is a["wd0"]), Z(twv[7][1][0][0]) == Z(a["wo1"]), z3.BoolVal(twv[7][1][0][1] is a["wd1"]),
                          Z(twv[7][1][1][0]) == Z(a["wo2"]), z3.BoolVal(twv[7][1][1][1] is a["wd2"]))),
                  ("new-length-is-passed-through", z3.And(Z(twv[3][2]) == Z(a["nl0"]), z3.BoolVal(twv[7][2] is None))),
                  ("read-vector-is-passed-through-in-order", z3.And(Z(rv[0][0]) == Z(a["ro0"]), Z(rv[0][1]) == Z(a["rs0"]), Z(rv[1][0]) == Z(a["ro1"]), Z(rv[1][1]) == Z(a["rs1"])))]
        if out.kind == "raise":
            code = out.exc.fields.get("code") if isinstance(out.exc, SObj) else getattr(out.exc, "code", None)
            g.append(("a-bad-write-enabler-is-401", z3.BoolVal(a["bad_enabler"] and code == http.UNAUTHORIZED)))
        else:
            v = out.value
            g.append(("the-storage-servers-answer-is-returned-unchanged", z3.BoolVal(isinstance(v, tuple) and v[0] == "sent" and v[1]["data"] is self._readdata and v[1]["success"] is a["success"])))
        return g

    def canary(self, I, a, out):
        return [("canary", z3.BoolVal(not self._calls))]


class ReadShareChunkClient(Spec):
    file = HC
    qualname = "read_share_chunk"
    cross_check = 0
    canary_case = {"code": 206}

    @property
    def raises(self):
        return (ValueError, self.module().ClientException)

    def inputs(self):
        return {"code": ChoiceK([204, 206, 200, 500]), "offset": IntK(0), "length": IntK(1), "cr_start": IntK(0), "cr_stop": IntK(0), "actual": IntK(0), "ctype_ok": BoolK()}

    def all_cases(self):
        return [{"code": c} for c in (204, 206, 200, 500)]

    def requires(self, I, a):
        return Z(a["cr_stop"]) >= Z(a["cr_start"])

    def config(self):
        me = self
        return {"on_yield": lambda I, val, n, env: val,
                "overrides": {"http_client.Range": lambda I, a, kw: stub("Range", to_header=lambda I_, a_, k_: ("range", a[0], a[1])),
                              "range.Range": lambda I, a, kw: stub("Range", to_header=lambda I_, a_, k_: ("range", a[0], a[1])),
                              "http_client.Headers": lambda I, a, kw: a[0], "http_headers.Headers": lambda I, a, kw: a[0],
                              "http_client.get_content_type": lambda I, a, kw: me._ctype, "http_common.get_content_type": lambda I, a, kw: me._ctype,
                              "http_client.parse_content_range_header": lambda I, a, kw: stub("ContentRange", start=me._a["cr_start"], stop=me._a["cr_stop"]),
                              "http.parse_content_range_header": lambda I, a, kw: stub("ContentRange", start=me._a["cr_start"], stop=me._a["cr_stop"]),
                              "http_client.limited_content": lambda I, a, kw: (me._limit.append(a[2]), me._body)[1],
                              "http_client._encode_si": lambda I, a, kw: "si"}}

    def run(self, I, a):
        self._a, self._req, self._limit = a, [], []
        self._ctype = "application/octet-stream" if I.path.branch(to_z3_bool(a["ctype_ok"])) else "text/plain"
        self._payload = SStr(z3.String("payload"), True, a["actual"])
        pos = [0]
        self._body = stub("body", seek=lambda I_, a_, k_: None, tell=lambda I_, a_, k_: a["actual"], read=lambda I_, a_, k_: self._payload)
        resp = stub("response", code=a["code"], headers=stub("headers", getRawHeaders=lambda I_, a_, k_: ["bytes x-y/z"]))
        client = stub("client", relative_url=lambda I_, a_, k_: "url", request=lambda I_, a_, k_: (self._req.append((tuple(a_), dict(k_))), resp)[1], _clock=None)
        return I.call_value(self.target(I), [client, "immutable", b"s" * 16, 3, a["offset"], a["length"]], {})

    def ensures(self, I, a, out):
        off, ln = Z(a["offset"]), Z(a["length"])
        g = [("exactly-one-request", z3.BoolVal(len(self._req) == 1))]
        if len(self._req) == 1:
            hdr = self._req[0][1].get("headers")
            rng = hdr["range"][0] if isinstance(hdr, dict) and "range" in hdr else None
            ok = isinstance(rng, tuple) and rng[1] == "bytes" and len(rng[2]) == 1
            g.append(("the-range-asked-for-is-offset-to-offset-plus-length", z3.And(z3.BoolVal(ok), Z(rng[2][0][0]) == off, Z(rng[2][0][1]) == off + ln) if ok else z3.BoolVal(False)))
        supposed = Z(a["cr_stop"]) - Z(a["cr_start"])
        if out.kind == "raise":
            if a["code"] == 204:
                g.append(("no-content-is-not-an-error", z3.BoolVal(False)))
            elif a["code"] == 206:
                g.append(("a-206-is-refused-only-for-a-wrong-type-an-over-long-range-or-a-body-of-another-length",
                          z3.Or(z3.BoolVal(self._ctype != "application/octet-stream"), supposed > ln, Z(a["actual"]) != supposed)))
            return g
        if a["code"] == 204:
            g.append(("no-content-means-an-empty-read", z3.BoolVal(out.value == b"")))
        elif a["code"] == 206:
            g += [("a-body-is-accepted-only-if-it-is-as-long-as-its-content-range-and-not-longer-than-asked", z3.And(supposed <= ln, Z(a["actual"]) == supposed, z3.BoolVal(self._ctype == "application/octet-stream"))),
                  ("the-body-is-returned-unchanged", z3.BoolVal(out.value is self._payload))]
        else:
            g.append(("other-status-codes-are-errors", z3.BoolVal(False)))
        return g

    def canary(self, I, a, out):
        return [("canary", z3.BoolVal(out.kind != "return"))] if a["code"] == 206 else []


def contracts(tier):
    return [ReadRange(), ReadTestWriteServer(), ReadShareChunkClient()]
