"""Small executable models (real Python, interpreted symbolically by pyvc) used by contracts as stand-ins for library objects."""
