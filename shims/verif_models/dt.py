"""Model of an aware datetime: a wall-clock reading plus a UTC offset (both integers, seconds).
Comparison is by instant (wall - off), as for aware datetimes; replace(tzinfo=...) relabels the zone WITHOUT converting."""


class DT(object):
    def __init__(self, wall, off):
        self.wall = wall
        self.off = off

    def instant(self):
        return self.wall - self.off

    def __gt__(self, other):
        return self.instant() > other.instant()

    def __lt__(self, other):
        return self.instant() < other.instant()

    def __ge__(self, other):
        return self.instant() >= other.instant()

    def __le__(self, other):
        return self.instant() <= other.instant()

    def replace(self, tzinfo=None):
        if tzinfo is None:
            return DT(self.wall, self.off)
        return DT(self.wall, 0)

    def astimezone(self, tz=None):
        return DT(self.wall - self.off, 0)
