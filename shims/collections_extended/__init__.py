"""Import-only stand-in for collections_extended.RangeMap (absent from this sandbox).

Used ONLY by /verif native replays and cross-checks so that
allmydata.storage.immutable (and everything importing it) can be imported.
Never installed into /venv; the baseline test command does not see it.
Semantics: a map from half-open integer intervals to values, as used by
allmydata.storage.immutable.BucketWriter (set / ranges / empty).
"""


class MappedRange(object):
    __slots__ = ("start", "stop", "value")

    def __init__(self, start, stop, value):
        self.start, self.stop, self.value = start, stop, value

    def __iter__(self):
        yield self.start
        yield self.stop
        yield self.value

    def __repr__(self):
        return "MappedRange(%r, %r, %r)" % (self.start, self.stop, self.value)

    def __eq__(self, other):
        return tuple(self) == tuple(other)


class RangeMap(object):
    def __init__(self):
        self._r = []  # sorted, disjoint (start, stop, value)

    def set(self, value, start=None, stop=None):
        assert start is not None and stop is not None and start < stop
        new = []
        for (s, e, v) in self._r:
            if e <= start or s >= stop:
                new.append((s, e, v))
            else:
                if s < start:
                    new.append((s, start, v))
                if e > stop:
                    new.append((stop, e, v))
        new.append((start, stop, value))
        new.sort(key=lambda t: t[0])
        merged = []
        for t in new:
            if merged and merged[-1][1] == t[0] and merged[-1][2] == t[2]:
                merged[-1] = (merged[-1][0], t[1], t[2])
            else:
                merged.append(t)
        self._r = merged

    def delete(self, start=None, stop=None):
        new = []
        for (s, e, v) in self._r:
            if e <= start or s >= stop:
                new.append((s, e, v))
            else:
                if s < start:
                    new.append((s, start, v))
                if e > stop:
                    new.append((stop, e, v))
        self._r = new

    def ranges(self, start=None, stop=None):
        out = []
        for (s, e, v) in self._r:
            if start is not None and e <= start:
                continue
            if stop is not None and s >= stop:
                continue
            s2 = s if start is None else max(s, start)
            e2 = e if stop is None else min(e, stop)
            out.append(MappedRange(s2, e2, v))
        return out

    def empty(self):
        self._r = []

    def __len__(self):
        return len(self._r)

    def __iter__(self):
        return iter(self.ranges())
